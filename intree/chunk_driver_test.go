//go:build verif
// +build verif

// White-box chunk driver (engine E3). It is NOT part of /repo: the harness
// injects it into package core with `go test -overlay`. It only executes:
// feeds a byte stream, cut into chunks, to the real event-loop read path of a
// client connection on a socketpair and records what the decoder recognised
// after every chunk. All judging happens in the harness.
package core

import (
	"encoding/base64"
	"encoding/json"
	"net"
	"os"
	"crypto/sha1"
	"encoding/hex"
	"sort"
	"strconv"
	"testing"

	"golang.org/x/sys/unix"

	"rcproxy/core/internal/netpoll"
)

type e3Case struct {
	Stream string  `json:"stream"` // base64
	Cuts   [][]int `json:"cuts"`   // each: chunk sizes (remainder = last chunk)
	Poison string  `json:"poison"` // base64: fed to a throw-away connection that is closed mid-request before every run
}

type e3In struct {
	BufSize int      `json:"bufsize"`
	MaxLen  int      `json:"maxlen"`
	Cases   []e3Case `json:"cases"`
}

type e3Req struct {
	Type  uint32   `json:"type"`
	Frags []string `json:"frags"` // base64, sorted
}

type e3Step struct {
	Decoded int  `json:"decoded"`
	Closed  bool `json:"closed"`
	Written int  `json:"written"`
}

type e3Run struct {
	Steps []e3Step `json:"steps"`
	Reqs  []e3Req  `json:"reqs"`
	Out   string   `json:"out"` // base64 of bytes written back to the client
	Panic string   `json:"panic,omitempty"`
}

type e3Out struct {
	Runs [][]e3Run `json:"runs"` // per case, per segmentation
}

type e3Handler struct {
	BuiltinEventEngine
	reqs []e3Req
}

func (h *e3Handler) OnCReact(m *Msg, c CConn) ([]byte, Action) {
	r := e3Req{Type: uint32(m.Type)}
	for _, f := range m.Body {
		if len(f.Req) > 256 {
			h := sha1.Sum(f.Req)
			r.Frags = append(r.Frags, "sha1:"+hex.EncodeToString(h[:])+":"+strconv.Itoa(len(f.Req)))
		} else {
			r.Frags = append(r.Frags, base64.StdEncoding.EncodeToString(f.Req))
		}
	}
	sort.Strings(r.Frags)
	h.reqs = append(h.reqs, r)
	// answer locally so that the message is recycled like a locally answered one
	return []byte("+ok\r\n"), None
}

func e3Feed(t *testing.T, in *e3In, stream []byte, cuts []int) (run e3Run) {
	fds, err := unix.Socketpair(unix.AF_UNIX, unix.SOCK_STREAM, 0)
	if err != nil {
		t.Fatal(err)
	}
	defer unix.Close(fds[1])
	unix.SetNonblock(fds[0], true)
	unix.SetNonblock(fds[1], true)
	unix.SetsockoptInt(fds[1], unix.SOL_SOCKET, unix.SO_SNDBUF, 1<<22)
	unix.SetsockoptInt(fds[0], unix.SOL_SOCKET, unix.SO_RCVBUF, 1<<22)

	h := &e3Handler{}
	opts := &Options{ReadBufferCap: in.BufSize, WriteBufferCap: in.BufSize, RedisMsgMaxLength: in.MaxLen}
	eng := &engine{opts: opts, eventHandler: h}
	p, err := netpoll.OpenPoller()
	if err != nil {
		t.Fatal(err)
	}
	defer p.Close()
	el := &eventloop{engine: eng, poller: p, buffer: make([]byte, in.BufSize), connections: map[int]*conn{}, eventHandler: h}
	el.ln = &listener{addr: &net.TCPAddr{IP: net.IPv4(127, 0, 0, 1), Port: 1}}
	eng.el = el
	EngineGlobal = &Engine{eng: eng, cCodec: CRespCodec{in.MaxLen}, sCodec: SRespCodec{in.MaxLen}, ProxyPool: map[string]*Pool{}}
	c := newTCPConn(fds[0], el, el.ln.addr, &net.TCPAddr{IP: net.IPv4(127, 0, 0, 1), Port: 2}, ConnClient, Initialized, false)
	if err := p.AddRead(c.pollAttachment); err != nil {
		t.Fatal(err)
	}
	el.connections[c.fd] = c
	c.opened = true

	defer func() {
		if r := recover(); r != nil {
			run.Panic = "panic"
			if e, ok := r.(error); ok {
				run.Panic = e.Error()
			} else if s, ok := r.(string); ok {
				run.Panic = s
			}
			run.Reqs = h.reqs
		}
		if c.opened {
			el.closeConn(c, nil, ConnEof)
		}
	}()

	var outBytes []byte
	rd := make([]byte, 1<<16)
	drain := func() {
		for {
			n, err := unix.Read(fds[1], rd)
			if n <= 0 || err != nil {
				return
			}
			outBytes = append(outBytes, rd[:n]...)
		}
	}
	feed := func(chunk []byte) {
		for len(chunk) > 0 {
			n, err := unix.Write(fds[1], chunk)
			if err != nil {
				t.Fatalf("socketpair write: %v", err)
			}
			chunk = chunk[n:]
			// one read() per el.buffer worth of bytes, like level-triggered epoll would
			for k := 0; k < (n+in.BufSize-1)/in.BufSize; k++ {
				if !c.opened {
					break
				}
				_ = el.read(c)
			}
			drain()
		}
	}
	off := 0
	for _, sz := range cuts {
		if sz <= 0 || off+sz >= len(stream) {
			break
		}
		feed(stream[off : off+sz])
		off += sz
		run.Steps = append(run.Steps, e3Step{Decoded: len(h.reqs), Closed: !c.opened, Written: len(outBytes)})
		if !c.opened {
			break
		}
	}
	if c.opened && off < len(stream) {
		feed(stream[off:])
	}
	run.Steps = append(run.Steps, e3Step{Decoded: len(h.reqs), Closed: !c.opened, Written: len(outBytes)})
	run.Reqs = h.reqs
	run.Out = base64.StdEncoding.EncodeToString(outBytes)
	return run
}

func TestVerifChunks(t *testing.T) {
	inPath, outPath := os.Getenv("VERIF_E3_IN"), os.Getenv("VERIF_E3_OUT")
	if inPath == "" || outPath == "" {
		t.Skip("VERIF_E3_IN / VERIF_E3_OUT not set")
	}
	b, err := os.ReadFile(inPath)
	if err != nil {
		t.Fatal(err)
	}
	var in e3In
	if err := json.Unmarshal(b, &in); err != nil {
		t.Fatal(err)
	}
	var out e3Out
	for ci, cs := range in.Cases {
		stream, err := base64.StdEncoding.DecodeString(cs.Stream)
		if err != nil {
			t.Fatal(err)
		}
		var runs []e3Run
		poison, _ := base64.StdEncoding.DecodeString(cs.Poison)
		for si, cuts := range cs.Cuts {
			if len(poison) > 0 {
				// another client sends part of a request in two reads and hangs up
				_ = e3Feed(t, &in, poison, []int{len(poison) / 2})
			}
			os.WriteFile(outPath+".last", []byte(strconv.Itoa(ci)+" "+strconv.Itoa(si)), 0o644)
			runs = append(runs, e3Feed(t, &in, stream, cuts))
		}
		out.Runs = append(out.Runs, runs)
	}
	ob, _ := json.Marshal(out)
	if err := os.WriteFile(outPath, ob, 0o644); err != nil {
		t.Fatal(err)
	}
}
