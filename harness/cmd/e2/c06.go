package main

import (
	"bytes"
	"fmt"
	"math/rand"
	"sort"
	"strings"

	"rcproxy/core"

	. "vcheck/lib"
)

func initCore() {
	if core.EngineGlobal == nil {
		core.EngineGlobal = &core.Engine{}
	}
}

type multiCase struct {
	Kind string
	Keys [][]byte
	Vals [][]byte
}

func (m multiCase) encode(rng *rand.Rand) []byte {
	name := []byte(m.Kind)
	for i := range name {
		if rng.Intn(2) == 0 {
			name[i] ^= 0x20
		}
	}
	args := [][]byte{name}
	for i, k := range m.Keys {
		args = append(args, k)
		if m.Kind == "mset" {
			args = append(args, m.Vals[i])
		}
	}
	return EncodeReq(args...)
}

func genMulti(rng *rand.Rand, maxKeys int) multiCase {
	kinds := []string{"mget", "del", "mset"}
	m := multiCase{Kind: kinds[rng.Intn(3)]}
	var n int
	switch rng.Intn(10) {
	case 0:
		n = 1
	case 1:
		n = 1 + rng.Intn(maxKeys)
	default:
		n = 1 + rng.Intn(12)
	}
	ntags := 1 + rng.Intn(6)
	tags := make([]string, ntags)
	for i := range tags {
		tags[i] = SlotTag(rng.Intn(16384))
	}
	for i := 0; i < n; i++ {
		var k []byte
		switch rng.Intn(8) {
		case 0: // duplicate of an earlier key
			if i > 0 {
				k = append([]byte(nil), m.Keys[rng.Intn(i)]...)
			} else {
				k = []byte("dup")
			}
		case 1: // empty key
			k = []byte{}
		case 2: // binary with CRLF
			k = randBytes(rng, rng.Intn(20), true)
		case 3:
			k = append([]byte("a\r\nb$3\r\n*2"), randBytes(rng, rng.Intn(4), true)...)
		case 4, 5: // hash tagged into few slots
			k = []byte("{" + tags[rng.Intn(ntags)] + "}" + fmt.Sprint(rng.Intn(50)))
		case 6: // brace hostile
			k = genKey(rng)
			if len(k) > 40 {
				k = k[:40]
			}
		default:
			k = []byte(fmt.Sprintf("key:%d", rng.Intn(100000)))
		}
		m.Keys = append(m.Keys, k)
		if m.Kind == "mset" {
			var v []byte
			switch rng.Intn(4) {
			case 0:
				v = []byte{}
			case 1:
				v = randBytes(rng, rng.Intn(30), true)
			default:
				v = []byte(fmt.Sprintf("val-%d-%d", i, rng.Intn(1000)))
			}
			m.Vals = append(m.Vals, v)
		}
	}
	return m
}

// refFragments is the reference split: one canonical command per distinct
// reference slot with that slot's keys (pairs) in original relative order.
func refFragments(m multiCase) map[int][][]byte {
	out := map[int][][]byte{}
	for i, k := range m.Keys {
		s := KeySlot(k)
		out[s] = append(out[s], k)
		if m.Kind == "mset" {
			out[s] = append(out[s], m.Vals[i])
		}
	}
	return out
}

func checkMulti(m multiCase, rng *rand.Rand) {
	raw := m.encode(rng)
	sc := &stubConn{buf: append([]byte(nil), raw...)}
	codec := core.CRespCodec{MsgMaxLength: 64 << 20}
	msg, err := codec.Decode(sc)
	shape := fmt.Sprintf("%s/keys=%d", m.Kind, bucket(len(m.Keys)))
	wit := map[string]interface{}{"request": Q(raw)}
	if err != nil || msg == nil {
		addViol(Viol{Class: "split-decode-failed", Shape: shape, Detail: fmt.Sprintf("decoder returned err=%v msg=%v for a well-formed request", err, msg != nil), Witness: wit})
		return
	}
	if len(sc.buf) != 0 {
		addViol(Viol{Class: "split-consumed-wrong-length", Shape: shape, Detail: fmt.Sprintf("%d bytes left after decoding one complete request", len(sc.buf)), Witness: wit})
	}
	ref := refFragments(m)
	type frag struct {
		name string
		args [][]byte
		raw  []byte
	}
	var got []frag
	for _, f := range msg.Body {
		args, n, perr := ParseRequestAsRedis(f.Req)
		if perr != nil || n != len(f.Req) || len(args) < 1 {
			addViol(Viol{Class: "fragment-malformed", Shape: shape, Detail: fmt.Sprintf("fragment %s does not parse as one RESP command: %v", Q(f.Req), perr), Witness: wit})
			return
		}
		if !bytes.Equal(EncodeReq(args...), f.Req) {
			addViol(Viol{Class: "fragment-not-canonical", Shape: shape, Detail: fmt.Sprintf("fragment %s is not canonically encoded", Q(f.Req)), Witness: wit})
		}
		got = append(got, frag{strings.ToLower(string(args[0])), args[1:], f.Req})
	}
	fragsDesc := func() []string {
		var d []string
		for _, g := range got {
			d = append(d, Q(g.raw))
		}
		sort.Strings(d)
		return d
	}
	wit["fragments"] = fragsDesc()
	if len(got) != len(ref) {
		addViol(Viol{Class: "fragment-count", Shape: shape, Detail: fmt.Sprintf("%d fragments for %d distinct slots", len(got), len(ref)), Witness: wit})
		return
	}
	used := map[int]bool{}
	for _, g := range got {
		if g.name != m.Kind {
			addViol(Viol{Class: "fragment-wrong-command", Shape: shape, Detail: fmt.Sprintf("fragment command %q for a %s request", g.name, m.Kind), Witness: wit})
			return
		}
		if len(g.args) == 0 {
			addViol(Viol{Class: "fragment-empty", Shape: shape, Detail: "fragment without keys", Witness: wit})
			return
		}
		s := KeySlot(g.args[0])
		want, ok := ref[s]
		if !ok || used[s] {
			addViol(Viol{Class: "fragment-slot-mismatch", Shape: shape, Detail: fmt.Sprintf("fragment starting with key %s has no matching reference slot group (slot %d)", Q(g.args[0]), s), Witness: wit})
			return
		}
		used[s] = true
		if len(want) != len(g.args) {
			addViol(Viol{Class: "fragment-keys-differ", Shape: shape, Detail: fmt.Sprintf("slot %d: fragment has %d args, reference %d", s, len(g.args), len(want)), Witness: wit})
			return
		}
		for i := range want {
			if !bytes.Equal(want[i], g.args[i]) {
				addViol(Viol{Class: "fragment-keys-differ", Shape: shape, Detail: fmt.Sprintf("slot %d arg %d: got %s want %s", s, i, Q(g.args[i]), Q(want[i])), Witness: wit})
				return
			}
		}
	}
	count("fragments_checked", int64(len(got)))
	count("keys_checked", int64(len(m.Keys)))
}

func bucket(n int) int {
	switch {
	case n <= 1:
		return 1
	case n <= 4:
		return 4
	case n <= 16:
		return 16
	case n <= 128:
		return 128
	}
	return 2000
}

func runC06(seed int64, n int) {
	initCore()
	rng := rand.New(rand.NewSource(seed*977 + 5))
	distinct := map[string]struct{}{}
	for i := 0; i < n; i++ {
		if i%5000 == 0 {
			setLast(fmt.Sprintf("c06 seed=%d index=%d", seed*977+5, i))
		}
		m := genMulti(rng, 2000)
		checkMulti(m, rng)
		ref := refFragments(m)
		if len(m.Keys) >= 2 {
			sig := fmt.Sprintf("%s/%d/%d", m.Kind, len(m.Keys), len(ref))
			distinct[sig] = struct{}{}
		}
		if i < 3 {
			sample(map[string]interface{}{"kind": m.Kind, "keys": len(m.Keys), "distinct_slots": len(ref), "request_head": Q(m.encode(rng)[:minI(120, len(m.encode(rng)))])})
		}
	}
	res.Evals = int64(n)
	res.Distinct = int64(len(distinct))
}

func minI(a, b int) int {
	if a < b {
		return a
	}
	return b
}
