// e2 links the real rcproxy packages (replace rcproxy => /repo, so it is always
// compiled from /repo's current working tree) and drives them in-process
// against reference models. It is run as a child of vcheck: one panic or
// sanitizer report must not end the monitors. Before each batch the case
// coordinates are written to the --last file so the parent can name the input
// that killed the child.
package main

import (
	"encoding/json"
	"flag"
	"fmt"
	"os"
	"sort"
	"sync"
)

type Viol struct {
	Class   string      `json:"class"`
	Shape   string      `json:"shape"`
	Detail  string      `json:"detail"`
	Witness interface{} `json:"witness"`
}

type Result struct {
	Evals    int64            `json:"evals"`
	Distinct int64            `json:"distinct"`
	Samples  []interface{}    `json:"samples"`
	Counters map[string]int64 `json:"counters"`
	Viols    []Viol           `json:"viols"`
	Notes    []string         `json:"notes"`
}

var (
	resMu sync.Mutex
	res   = Result{Counters: map[string]int64{}}
	// one representative violation per class+shape
	violSeen = map[string]int{}
)

func addViol(v Viol) {
	resMu.Lock()
	defer resMu.Unlock()
	k := v.Class + "|" + v.Shape
	violSeen[k]++
	if violSeen[k] == 1 && len(res.Viols) < 300 {
		res.Viols = append(res.Viols, v)
	}
}

func count(name string, n int64) {
	resMu.Lock()
	res.Counters[name] += n
	resMu.Unlock()
}

func sample(s interface{}) {
	resMu.Lock()
	if len(res.Samples) < 6 {
		res.Samples = append(res.Samples, s)
	}
	resMu.Unlock()
}

var (
	lastPath string
	lastMu   sync.Mutex
)

func setLast(s string) {
	if lastPath == "" {
		return
	}
	lastMu.Lock()
	os.WriteFile(lastPath, []byte(s), 0o644)
	lastMu.Unlock()
}

func main() {
	if len(os.Args) < 2 {
		fmt.Fprintln(os.Stderr, "usage: e2 <c05|c06|c17|c19> [flags]")
		os.Exit(2)
	}
	sub := os.Args[1]
	fs := flag.NewFlagSet(sub, flag.ExitOnError)
	seed := fs.Int64("seed", 0, "seed")
	n := fs.Int("n", 100000, "random cases")
	exh := fs.Int("exh", 7, "exhaustive length")
	workers := fs.Int("workers", 8, "workers")
	life := fs.Int("life", 0, "requests of the decoder life-cycle monitor (c05, c06)")
	out := fs.String("out", "", "result file")
	last := fs.String("last", "", "last-case file")
	fs.Parse(os.Args[2:])
	lastPath = *last
	switch sub {
	case "c05":
		runC05(*seed, *n, *exh, *workers)
		if *life > 0 {
			runLife(*seed, *life)
		}
	case "c06":
		runC06(*seed, *n)
		if *life > 0 {
			runLife(*seed+1, *life)
		}
	case "c12":
		runC12(*seed, *n, *workers)
	case "c19":
		runC19(*seed, *n, *workers)
	default:
		fmt.Fprintln(os.Stderr, "unknown subcommand")
		os.Exit(2)
	}
	for k, v := range violSeen {
		if v > 1 {
			res.Notes = append(res.Notes, fmt.Sprintf("%s seen %d times", k, v))
		}
	}
	sort.Strings(res.Notes)
	b, _ := json.Marshal(res)
	if *out != "" {
		os.WriteFile(*out, b, 0o644)
	} else {
		os.Stdout.Write(b)
	}
}
