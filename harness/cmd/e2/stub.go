package main

import (
	"io"
	"time"

	"rcproxy/core"
)

// stubConn implements core.CConn over a byte slice, the way the event loop
// presents a client's buffered bytes to the decoder.
type stubConn struct {
	buf      []byte
	enqueued []*core.Msg
}

func (s *stubConn) Read(p []byte) (int, error) {
	n := copy(p, s.buf)
	s.buf = s.buf[n:]
	if n == 0 {
		return 0, io.EOF
	}
	return n, nil
}
func (s *stubConn) WriteTo(w io.Writer) (int64, error) {
	n, err := w.Write(s.buf)
	return int64(n), err
}
func (s *stubConn) Next(n int) ([]byte, error) {
	if n > len(s.buf) {
		return nil, io.ErrShortBuffer
	}
	b := s.buf[:n]
	s.buf = s.buf[n:]
	return b, nil
}
func (s *stubConn) Peek(n int) ([]byte, error) {
	if n > len(s.buf) {
		return nil, io.ErrShortBuffer
	}
	if n <= 0 {
		return s.buf, nil
	}
	return s.buf[:n], nil
}
func (s *stubConn) Discard(n int) (int, error) {
	if n > len(s.buf) || n <= 0 {
		d := len(s.buf)
		s.buf = nil
		return d, nil
	}
	s.buf = s.buf[n:]
	return n, nil
}
func (s *stubConn) InboundBuffered() int                                { return len(s.buf) }
func (s *stubConn) Write(p []byte) (int, error)                         { return len(p), nil }
func (s *stubConn) ReadFrom(r io.Reader) (int64, error)                 { return 0, nil }
func (s *stubConn) Writev(bs [][]byte) (int, error)                     { return 0, nil }
func (s *stubConn) Flush() error                                        { return nil }
func (s *stubConn) OutboundBuffered() int                               { return 0 }
func (s *stubConn) AsyncWrite(b []byte, cb core.AsyncCallback) error    { return nil }
func (s *stubConn) AsyncWritev(b [][]byte, cb core.AsyncCallback) error { return nil }
func (s *stubConn) Fd() int                                             { return 7 }
func (s *stubConn) Dup() (int, error)                                   { return 0, nil }
func (s *stubConn) SetReadBuffer(int) error                             { return nil }
func (s *stubConn) SetWriteBuffer(int) error                            { return nil }
func (s *stubConn) IsOpened() bool                                      { return true }
func (s *stubConn) SetLinger(int) error                                 { return nil }
func (s *stubConn) SetKeepAlivePeriod(time.Duration) error              { return nil }
func (s *stubConn) LocalAddr() string                                   { return "127.0.0.1:1" }
func (s *stubConn) RemoteAddr() string                                  { return "127.0.0.1:2" }
func (s *stubConn) SetDeadline(time.Time) error                         { return nil }
func (s *stubConn) SetReadDeadline(time.Time) error                     { return nil }
func (s *stubConn) SetWriteDeadline(time.Time) error                    { return nil }
func (s *stubConn) CloseWithCallback(core.AsyncCallback) error          { return nil }
func (s *stubConn) Close() error                                        { return nil }
func (s *stubConn) EnqueueInMsg(m *core.Msg)                            { s.enqueued = append(s.enqueued, m) }

var _ core.CConn = (*stubConn)(nil)
