package main

import (
	"bytes"
	"fmt"
	"math/rand"
	"strings"
	"sync"
	"sync/atomic"

	"rcproxy/core/pkg/buffer/elastic"
	"rcproxy/core/pkg/buffer/linkedlist"
	"rcproxy/core/pkg/buffer/ring"
)

// Ideal FIFO byte queue = a byte slice. Every operation is executed on the
// real buffer and on the model; results, reported lengths and the full
// content (peeked without consuming) must agree after every step.

type opLog struct {
	kind  string
	trace []string
}

func (l *opLog) add(format string, a ...interface{}) {
	if len(l.trace) < 400 {
		l.trace = append(l.trace, fmt.Sprintf(format, a...))
	}
}

var payloadCtr uint32

// payload returns n bytes that are unique per call (so misplaced bytes are
// visible): a running counter pattern.
func payload(n int) []byte {
	b := make([]byte, n)
	base := atomic.AddUint32(&payloadCtr, uint32(n)+1)
	for i := range b {
		x := base + uint32(i)
		b[i] = byte(x ^ x>>8 ^ x>>16)
	}
	return b
}

func pickSize(rng *rand.Rand, special ...int) int {
	switch rng.Intn(10) {
	case 0:
		return 0
	case 1:
		return 1
	case 2, 3, 4:
		s := special[rng.Intn(len(special))] + rng.Intn(3) - 1
		if s < 0 {
			s = 0
		}
		if s > 20000 {
			s = 20000 + rng.Intn(3)
		}
		return s
	case 5:
		return rng.Intn(9000)
	default:
		return rng.Intn(200)
	}
}

type c19stats struct {
	wraps, grows, spills, partialNode, ops int64
}

func fail(l *opLog, class, shape, detail string) {
	addViol(Viol{Class: class, Shape: l.kind + ":" + shape, Detail: detail, Witness: map[string]interface{}{"buffer": l.kind, "ops": l.trace}})
}

// ---- ring ----

type ringLike interface {
	Write(p []byte) (int, error)
	WriteByte(c byte) error
	WriteString(s string) (int, error)
	Read(p []byte) (int, error)
	ReadByte() (byte, error)
	Peek(n int) ([]byte, []byte)
	Discard(n int) (int, error)
	Bytes() []byte
	Reset()
	Buffered() int
	Available() int
	Cap() int
	IsEmpty() bool
	IsFull() bool
}

func ringSeq(rng *rand.Rand, rb ringLike, kind string, nops int, st *c19stats, allowWriteByte bool) bool {
	l := &opLog{kind: kind}
	setCur(rng, l)
	var model []byte
	lastCap := rb.Cap()
	check := func(op string) bool {
		if rb.Buffered() != len(model) {
			fail(l, "length-mismatch", op, fmt.Sprintf("after %s: Buffered()=%d, ideal queue holds %d", op, rb.Buffered(), len(model)))
			return false
		}
		if rb.IsEmpty() != (len(model) == 0) {
			fail(l, "isempty-mismatch", op, fmt.Sprintf("after %s: IsEmpty()=%v with %d bytes queued", op, rb.IsEmpty(), len(model)))
			return false
		}
		if rb.Available() != rb.Cap()-len(model) {
			fail(l, "available-mismatch", op, fmt.Sprintf("after %s: Available()=%d, Cap()=%d, queued %d", op, rb.Available(), rb.Cap(), len(model)))
			return false
		}
		if rb.IsFull() != (len(model) > 0 && len(model) == rb.Cap()) {
			fail(l, "isfull-mismatch", op, fmt.Sprintf("after %s: IsFull()=%v, Cap()=%d, queued %d", op, rb.IsFull(), rb.Cap(), len(model)))
			return false
		}
		h, t := rb.Peek(0)
		if len(t) > 0 {
			atomic.AddInt64(&st.wraps, 1)
		}
		if !bytes.Equal(append(append([]byte(nil), h...), t...), model) {
			fail(l, "content-mismatch", op, fmt.Sprintf("after %s: content differs from the ideal queue (len real %d, ideal %d)", op, len(h)+len(t), len(model)))
			return false
		}
		if c := rb.Cap(); c != lastCap {
			atomic.AddInt64(&st.grows, 1)
			lastCap = c
		}
		return true
	}
	for i := 0; i < nops; i++ {
		atomic.AddInt64(&st.ops, 1)
		free := rb.Cap() - len(model)
		opc := rng.Intn(12)
		if len(model) > 60000 && opc < 5 {
			opc = 5 + rng.Intn(2) // drain
		}
		switch opc {
		case 0, 1, 2:
			p := payload(pickSize(rng, free, rb.Cap(), 4096, len(model)))
			l.add("Write(%d)", len(p))
			n, err := rb.Write(p)
			if n != len(p) || err != nil {
				fail(l, "write-result", "Write", fmt.Sprintf("Write(%d) = %d,%v", len(p), n, err))
				return false
			}
			model = append(model, p...)
			if !check("Write") {
				return false
			}
		case 3:
			if !allowWriteByte {
				continue
			}
			b := byte(rng.Intn(256))
			l.add("WriteByte(%d) [cap=%d buffered=%d]", b, rb.Cap(), len(model))
			if err := rb.WriteByte(b); err != nil {
				fail(l, "write-result", "WriteByte", fmt.Sprintf("WriteByte = %v", err))
				return false
			}
			model = append(model, b)
			if !check("WriteByte") {
				return false
			}
		case 4:
			p := payload(pickSize(rng, free, 64))
			l.add("WriteString(%d)", len(p))
			n, err := rb.WriteString(string(p))
			if n != len(p) || err != nil {
				fail(l, "write-result", "WriteString", fmt.Sprintf("WriteString(%d) = %d,%v", len(p), n, err))
				return false
			}
			model = append(model, p...)
			if !check("WriteString") {
				return false
			}
		case 5, 6:
			sz := pickSize(rng, len(model), len(model)/2, 64)
			p := make([]byte, sz)
			l.add("Read(%d)", sz)
			n, _ := rb.Read(p)
			want := sz
			if want > len(model) {
				want = len(model)
			}
			if n != want || !bytes.Equal(p[:n], model[:want]) {
				fail(l, "read-mismatch", "Read", fmt.Sprintf("Read(%d) returned %d bytes, ideal queue gives %d; equal=%v", sz, n, want, n == want))
				return false
			}
			model = model[want:]
			if !check("Read") {
				return false
			}
		case 7:
			l.add("ReadByte")
			b, err := rb.ReadByte()
			if len(model) == 0 {
				if err == nil {
					fail(l, "read-mismatch", "ReadByte", "ReadByte on empty buffer returned no error")
					return false
				}
			} else {
				if err != nil || b != model[0] {
					fail(l, "read-mismatch", "ReadByte", fmt.Sprintf("ReadByte = %d,%v want %d", b, err, model[0]))
					return false
				}
				model = model[1:]
			}
			if !check("ReadByte") {
				return false
			}
		case 8:
			n := pickSize(rng, len(model), len(model)/2)
			l.add("Peek(%d)", n)
			h, t := rb.Peek(n)
			want := n
			if n <= 0 || n > len(model) {
				want = len(model)
			}
			got := append(append([]byte(nil), h...), t...)
			if !bytes.Equal(got, model[:want]) {
				fail(l, "peek-mismatch", "Peek", fmt.Sprintf("Peek(%d) returned %d bytes, want the first %d of the queue; equal=false", n, len(got), want))
				return false
			}
			if !check("Peek") {
				return false
			}
		case 9, 10:
			n := pickSize(rng, len(model), len(model)/2, len(model)-1)
			l.add("Discard(%d)", n)
			d, _ := rb.Discard(n)
			want := n
			if want > len(model) {
				want = len(model)
			}
			if want < 0 {
				want = 0
			}
			if d != want {
				fail(l, "discard-mismatch", "Discard", fmt.Sprintf("Discard(%d) = %d with %d queued", n, d, len(model)))
				return false
			}
			model = model[want:]
			if !check("Discard") {
				return false
			}
		case 11:
			if rng.Intn(6) == 0 {
				l.add("Reset")
				rb.Reset()
				model = model[:0]
			} else {
				l.add("Bytes")
				if b := rb.Bytes(); !bytes.Equal(b, model) {
					fail(l, "content-mismatch", "Bytes", fmt.Sprintf("Bytes() returned %d bytes, queue holds %d", len(b), len(model)))
					return false
				}
			}
			if !check("Reset/Bytes") {
				return false
			}
		}
	}
	return true
}

// ---- linked list ----

func llSeq(rng *rand.Rand, nops int, st *c19stats) bool {
	l := &opLog{kind: "linkedlist"}
	setCur(rng, l)
	var lb linkedlist.Buffer
	var model [][]byte // chunks
	total := func() int {
		n := 0
		for _, c := range model {
			n += len(c)
		}
		return n
	}
	flat := func() []byte {
		var b []byte
		for _, c := range model {
			b = append(b, c...)
		}
		return b
	}
	consume := func(n int) {
		for n > 0 && len(model) > 0 {
			if n < len(model[0]) {
				model[0] = model[0][n:]
				atomic.AddInt64(&st.partialNode, 1)
				return
			}
			n -= len(model[0])
			model = model[1:]
		}
	}
	check := func(op string) bool {
		if lb.Buffered() != total() {
			fail(l, "length-mismatch", op, fmt.Sprintf("after %s: Buffered()=%d, ideal queue holds %d", op, lb.Buffered(), total()))
			return false
		}
		if lb.Len() != len(model) {
			fail(l, "length-mismatch", op+"/nodes", fmt.Sprintf("after %s: Len()=%d nodes, ideal %d", op, lb.Len(), len(model)))
			return false
		}
		if lb.IsEmpty() != (len(model) == 0) {
			fail(l, "isempty-mismatch", op, fmt.Sprintf("after %s: IsEmpty()=%v with %d bytes queued", op, lb.IsEmpty(), total()))
			return false
		}
		var got []byte
		for _, s := range lb.Peek(0) {
			got = append(got, s...)
		}
		if !bytes.Equal(got, flat()) {
			fail(l, "content-mismatch", op, fmt.Sprintf("after %s: content differs from the ideal queue (real %d bytes, ideal %d)", op, len(got), total()))
			return false
		}
		return true
	}
	for i := 0; i < nops; i++ {
		atomic.AddInt64(&st.ops, 1)
		opc := rng.Intn(10)
		if total() > 60000 && opc < 4 {
			opc = 4
		}
		switch opc {
		case 0, 1, 2:
			p := payload(pickSize(rng, 64, 4096))
			l.add("PushBack(%d)", len(p))
			lb.PushBack(p)
			if len(p) > 0 {
				model = append(model, p)
			}
			if !check("PushBack") {
				return false
			}
		case 3:
			p := payload(pickSize(rng, 64))
			l.add("PushFront(%d)", len(p))
			lb.PushFront(p)
			if len(p) > 0 {
				model = append([][]byte{p}, model...)
			}
			if !check("PushFront") {
				return false
			}
		case 4, 5:
			sz := pickSize(rng, total(), total()/2, 64)
			p := make([]byte, sz)
			l.add("Read(%d)", sz)
			n, _ := lb.Read(p)
			want := sz
			if want > total() {
				want = total()
			}
			if n != want || !bytes.Equal(p[:n], flat()[:want]) {
				fail(l, "read-mismatch", "Read", fmt.Sprintf("Read(%d) returned %d bytes, ideal %d", sz, n, want))
				return false
			}
			consume(want)
			if !check("Read") {
				return false
			}
		case 6:
			n := pickSize(rng, total(), total()/2)
			var extra [][]byte
			op := "Peek"
			if rng.Intn(2) == 0 {
				op = "PeekWithBytes"
				for k := rng.Intn(3); k > 0; k-- {
					extra = append(extra, payload(rng.Intn(5)))
				}
			}
			l.add("%s(%d, extra=%d)", op, n, len(extra))
			var res [][]byte
			if op == "Peek" {
				res = lb.Peek(n)
			} else {
				res = lb.PeekWithBytes(n, extra...)
			}
			var got, all []byte
			for _, s := range res {
				got = append(got, s...)
			}
			for _, e := range extra {
				all = append(all, e...)
			}
			all = append(all, flat()...)
			min := n
			if n <= 0 || n > len(all) {
				min = len(all)
			}
			if len(got) < min || !bytes.HasPrefix(all, got) {
				fail(l, "peek-mismatch", op, fmt.Sprintf("%s(%d) returned %d bytes; must be a prefix of the queue of at least %d bytes; prefix=%v", op, n, len(got), min, bytes.HasPrefix(all, got)))
				return false
			}
			if !check(op) {
				return false
			}
		case 7, 8:
			n := pickSize(rng, total(), total()/2, total()-1)
			l.add("Discard(%d)", n)
			d, _ := lb.Discard(n)
			want := n
			if want > total() {
				want = total()
			}
			if want < 0 {
				want = 0
			}
			if d != want {
				fail(l, "discard-mismatch", "Discard", fmt.Sprintf("Discard(%d) = %d with %d queued", n, d, total()))
				return false
			}
			consume(want)
			if !check("Discard") {
				return false
			}
		case 9:
			if rng.Intn(5) == 0 {
				l.add("Reset")
				lb.Reset()
				model = nil
				if !check("Reset") {
					return false
				}
			}
		}
	}
	lb.Reset()
	return true
}

// ---- elastic ----

func elasticSeq(rng *rand.Rand, nops int, st *c19stats) bool {
	l := &opLog{kind: "elastic"}
	setCur(rng, l)
	thr := []int{1, 2, 7, 64, 100, 1024, 4096, 8192}[rng.Intn(8)]
	eb, _ := elastic.New(thr)
	l.add("New(%d)", thr)
	var model []byte
	check := func(op string) bool {
		if eb.Buffered() != len(model) {
			fail(l, "length-mismatch", op, fmt.Sprintf("after %s: Buffered()=%d, ideal queue holds %d", op, eb.Buffered(), len(model)))
			return false
		}
		if eb.IsEmpty() != (len(model) == 0) {
			fail(l, "isempty-mismatch", op, fmt.Sprintf("after %s: IsEmpty()=%v with %d bytes queued", op, eb.IsEmpty(), len(model)))
			return false
		}
		var got []byte
		pk := eb.Peek(0)
		for _, s := range pk {
			got = append(got, s...)
		}
		if len(pk) > 2 {
			atomic.AddInt64(&st.spills, 1)
		}
		if !bytes.Equal(got, model) {
			fail(l, "content-mismatch", op, fmt.Sprintf("after %s: content differs from the ideal queue (real %d bytes, ideal %d, first difference at %d)", op, len(got), len(model), firstDiff(got, model)))
			return false
		}
		return true
	}
	for i := 0; i < nops; i++ {
		atomic.AddInt64(&st.ops, 1)
		opc := rng.Intn(12)
		if len(model) > 60000 && opc < 6 {
			opc = 6
		}
		switch opc {
		case 0, 1, 2:
			p := payload(pickSize(rng, thr, thr-len(model), 4096))
			l.add("Write(%d)", len(p))
			n, err := eb.Write(p)
			if n != len(p) || err != nil {
				fail(l, "write-result", "Write", fmt.Sprintf("Write(%d) = %d,%v", len(p), n, err))
				return false
			}
			model = append(model, p...)
			if !check("Write") {
				return false
			}
		case 3, 4, 5:
			k := rng.Intn(6)
			var bs [][]byte
			var sizes []string
			tot := 0
			for j := 0; j < k; j++ {
				p := payload(pickSize(rng, thr, thr-len(model)-tot, 64))
				bs = append(bs, p)
				sizes = append(sizes, fmt.Sprint(len(p)))
				tot += len(p)
			}
			l.add("Writev(%s)", strings.Join(sizes, ","))
			n, err := eb.Writev(bs)
			if n != tot || err != nil {
				fail(l, "write-result", "Writev", fmt.Sprintf("Writev(total %d) = %d,%v", tot, n, err))
				return false
			}
			for _, p := range bs {
				model = append(model, p...)
			}
			if !check("Writev") {
				return false
			}
		case 6, 7:
			sz := pickSize(rng, len(model), len(model)/2, thr)
			p := make([]byte, sz)
			l.add("Read(%d)", sz)
			n, _ := eb.Read(p)
			want := sz
			if want > len(model) {
				want = len(model)
			}
			if n != want || !bytes.Equal(p[:n], model[:want]) {
				fail(l, "read-mismatch", "Read", fmt.Sprintf("Read(%d) returned %d bytes, ideal %d", sz, n, want))
				return false
			}
			model = model[want:]
			if !check("Read") {
				return false
			}
		case 8:
			n := pickSize(rng, len(model), len(model)/2, thr)
			l.add("Peek(%d)", n)
			var got []byte
			for _, s := range eb.Peek(n) {
				got = append(got, s...)
			}
			min := n
			if n <= 0 || n > len(model) {
				min = len(model)
			}
			if len(got) < min || !bytes.HasPrefix(model, got) {
				fail(l, "peek-mismatch", "Peek", fmt.Sprintf("Peek(%d) returned %d bytes; must be a prefix of the queue of at least %d bytes; prefix=%v", n, len(got), min, bytes.HasPrefix(model, got)))
				return false
			}
		case 9, 10:
			n := pickSize(rng, len(model), len(model)/2, len(model)-1, thr)
			l.add("Discard(%d)", n)
			d, _ := eb.Discard(n)
			want := n
			if want > len(model) {
				want = len(model)
			}
			if want < 0 {
				want = 0
			}
			if d != want {
				fail(l, "discard-mismatch", "Discard", fmt.Sprintf("Discard(%d) = %d with %d queued", n, d, len(model)))
				return false
			}
			model = model[want:]
			if !check("Discard") {
				return false
			}
		case 11:
			switch rng.Intn(8) {
			case 0:
				l.add("Reset(0)")
				eb.Reset(0)
				model = model[:0]
			case 1:
				l.add("Release")
				eb.Release()
				model = model[:0]
			default:
				continue
			}
			if !check("Reset/Release") {
				return false
			}
		}
	}
	eb.Release()
	return true
}

func firstDiff(a, b []byte) int {
	n := len(a)
	if len(b) < n {
		n = len(b)
	}
	for i := 0; i < n; i++ {
		if a[i] != b[i] {
			return i
		}
	}
	return n
}

var (
	curLog   = map[int]*opLog{}
	curByRng = map[*rand.Rand]int{}
	curMu    sync.Mutex
)

func setCur(rng *rand.Rand, l *opLog) {
	curMu.Lock()
	if w, ok := curByRng[rng]; ok {
		curLog[w] = l
	}
	curMu.Unlock()
}

func stripDigits(s string) string {
	var sb strings.Builder
	for _, r := range s {
		if r < '0' || r > '9' {
			sb.WriteRune(r)
		}
	}
	return sb.String()
}

func runC19(seed int64, n, workers int) {
	var st c19stats
	var wg sync.WaitGroup
	var distinct sync.Map
	var ndist int64
	per := n / workers
	for w := 0; w < workers; w++ {
		wg.Add(1)
		go func(w int) {
			defer wg.Done()
			rng := rand.New(rand.NewSource(seed*7907 + int64(w)))
			curMu.Lock()
			curByRng[rng] = w
			curMu.Unlock()
			for i := 0; i < per; i++ {
				if i%2000 == 0 {
					setLast(fmt.Sprintf("c19 worker=%d seed=%d index=%d", w, seed*7907+int64(w), i))
				}
				nops := 1 + rng.Intn(300)
				kind := rng.Intn(5)
				func() {
					defer func() {
						if r := recover(); r != nil {
							curMu.Lock()
							cur := curLog[w]
							curMu.Unlock()
							kindName := "?"
							var tr []string
							if cur != nil {
								kindName, tr = cur.kind, cur.trace
							}
							addViol(Viol{Class: "panic", Shape: kindName + ":" + stripDigits(fmt.Sprint(r)), Detail: fmt.Sprintf("buffer operation panicked: %v", r),
								Witness: map[string]interface{}{"buffer": kindName, "ops": tr}})
						}
					}()
					switch kind {
					case 0:
						size := []int{0, 1, 2, 7, 8, 64, 100, 1024, 4096}[rng.Intn(9)]
						ringSeq(rng, ring.New(size), "ring", nops, &st, true)
					case 1:
						var erb elastic.RingBuffer
						ringSeq(rng, &erbAdapter{&erb}, "elastic-ring", nops, &st, true)
						erb.Done()
					case 2:
						llSeq(rng, nops, &st)
					default:
						elasticSeq(rng, nops, &st)
					}
				}()
				sig := fmt.Sprintf("%d/%d", kind, nops)
				if _, loaded := distinct.LoadOrStore(sig, true); !loaded {
					atomic.AddInt64(&ndist, 1)
				}
			}
		}(w)
	}
	wg.Wait()
	res.Evals = int64(per * workers)
	res.Distinct = ndist
	count("operations", st.ops)
	count("ring_wraparounds_observed", st.wraps)
	count("ring_growths_observed", st.grows)
	count("elastic_spills_observed", st.spills)
	count("list_partial_node_drains", st.partialNode)
	sample(map[string]interface{}{"kind": "ring", "ops": "Write/WriteByte/WriteString/Read/ReadByte/Peek/Discard/Bytes/Reset with sizes biased to 0,1,cap-1,cap,cap+1,4096"})
	sample(map[string]interface{}{"kind": "elastic", "ops": "New(thr in 1..8192) Write/Writev/Read/Peek/Discard/Reset/Release"})
}

// erbAdapter adapts *elastic.RingBuffer (whose zero value lazily takes a ring
// from the pool and returns it when drained) to ringLike.
type erbAdapter struct{ b *elastic.RingBuffer }

func (a *erbAdapter) Write(p []byte) (int, error)       { return a.b.Write(p) }
func (a *erbAdapter) WriteByte(c byte) error            { return a.b.WriteByte(c) }
func (a *erbAdapter) WriteString(s string) (int, error) { return a.b.WriteString(s) }
func (a *erbAdapter) Read(p []byte) (int, error)        { return a.b.Read(p) }
func (a *erbAdapter) ReadByte() (byte, error)           { return a.b.ReadByte() }
func (a *erbAdapter) Peek(n int) ([]byte, []byte)       { return a.b.Peek(n) }
func (a *erbAdapter) Discard(n int) (int, error)        { return a.b.Discard(n) }
func (a *erbAdapter) Bytes() []byte                     { return a.b.Bytes() }
func (a *erbAdapter) Reset()                            { a.b.Reset() }
func (a *erbAdapter) Buffered() int                     { return a.b.Buffered() }
func (a *erbAdapter) Available() int                    { return a.b.Available() }
func (a *erbAdapter) Cap() int                          { return a.b.Cap() }
func (a *erbAdapter) IsEmpty() bool                     { return a.b.IsEmpty() }
func (a *erbAdapter) IsFull() bool                      { return a.b.IsFull() }
