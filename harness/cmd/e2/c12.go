package main

import (
	"fmt"
	"math/rand"
	"sync"

	"rcproxy/core"
	"rcproxy/core/codec"

	. "vcheck/lib"
)

// In-process decoder monitor for C12: the same hostile input generator as on
// the wire, fed to the real client decoder the way the event loop does (decode
// until "incomplete" or "invalid"), millions of inputs per minute. Oracles:
// no panic; the number of requests recognised and the final verdict agree
// with the reference stream classifier (invalid input must end in
// ErrInvalidResp - that is what closes the connection -, valid prefixes must
// wait, complete streams must be consumed entirely).
func decodeAll(data []byte) (n int, verdict string, panicked interface{}) {
	defer func() {
		if r := recover(); r != nil {
			panicked = r
		}
	}()
	sc := &stubConn{buf: append([]byte(nil), data...)}
	cc := core.CRespCodec{MsgMaxLength: 6 << 20}
	for {
		if len(sc.buf) == 0 {
			return n, "complete", nil
		}
		msg, err := cc.Decode(sc)
		if err == codec.ErrInvalidResp {
			return n, "invalid", nil
		}
		if err != nil {
			return n, "prefix", nil
		}
		if msg == nil {
			return n, "nil-request-without-error", nil
		}
		core.MsgPool.Put(msg)
		n++
		if n > 1<<20 {
			return n, "no-progress", nil
		}
	}
}

func runC12(seed int64, n, workers int) {
	initCore()
	var wg sync.WaitGroup
	per := n / workers
	var mu sync.Mutex
	distinct := map[string]struct{}{}
	states := map[string]int64{}
	for w := 0; w < workers; w++ {
		wg.Add(1)
		go func(w int) {
			defer wg.Done()
			rng := rand.New(rand.NewSource(seed*6151 + int64(w)))
			local := map[string]struct{}{}
			lstates := map[string]int64{}
			for i := 0; i < per; i++ {
				if i%50000 == 0 {
					setLast(fmt.Sprintf("c12 worker=%d seed=%d index=%d", w, seed*6151+int64(w), i))
				}
				h := GenHostile(rng)
				ref := ClassifyStream(h.Data)
				lstates[ref.State]++
				if len(local) < 20000 {
					local[ref.State+":"+ref.Reason+":"+h.Origin] = struct{}{}
				}
				got, verdict, pan := decodeAll(h.Data)
				wit := map[string]interface{}{"input": Q(h.Data), "origin": h.Origin, "reference": ref, "decoder_requests": got, "decoder_verdict": verdict}
				switch {
				case pan != nil:
					addViol(Viol{Class: "decoder-panic", Shape: ref.State + ":" + ref.Reason, Detail: fmt.Sprintf("the client decoder panicked on hostile input: %v", pan), Witness: wit})
				case ref.State == "oversized":
					// no requirement beyond not crashing
				case verdict == "nil-request-without-error" || verdict == "no-progress":
					addViol(Viol{Class: "decoder-" + verdict, Shape: ref.State + ":" + ref.Reason, Detail: "decoder returned " + verdict, Witness: wit})
				case got != ref.Complete:
					addViol(Viol{Class: "decoder-request-count", Shape: ref.State + ":" + ref.Reason, Detail: fmt.Sprintf("decoder recognised %d requests, the bytes contain %d well-formed ones before the judged point", got, ref.Complete), Witness: wit})
				case ref.State == "invalid" && verdict != "invalid":
					addViol(Viol{Class: "invalid-input-treated-as-" + verdict, Shape: ref.Reason, Detail: fmt.Sprintf("input can never become a well-formed request stream (%s) but the decoder answers %q: the connection would wait forever", ref.Reason, verdict), Witness: wit})
				case ref.State != "invalid" && verdict == "invalid":
					addViol(Viol{Class: "valid-prefix-rejected", Shape: ref.State, Detail: "a valid prefix / complete stream was rejected as invalid RESP", Witness: wit})
				case ref.State != verdict:
					addViol(Viol{Class: "decoder-verdict-differs", Shape: ref.State + "->" + verdict, Detail: fmt.Sprintf("reference says %s, decoder says %s", ref.State, verdict), Witness: wit})
				}
				if w == 0 && i < 3 {
					sample(wit)
				}
			}
			mu.Lock()
			for k := range local {
				distinct[k] = struct{}{}
			}
			for k, v := range lstates {
				states[k] += v
			}
			mu.Unlock()
		}(w)
	}
	wg.Wait()
	res.Evals = int64(per * workers)
	res.Distinct = int64(len(distinct))
	for k, v := range states {
		count("inputs_reference_"+k, v)
	}
}
