package main

import (
	"bytes"
	"fmt"
	"math/rand"
	"strings"

	"rcproxy/core"
	"rcproxy/core/codec"

	. "vcheck/lib"
)

// Decoder life-cycle monitor (used by C05 and C06). The per-request monitors
// above decode every request on its own into a fresh message. The event loop
// does not: a client's bytes arrive in pieces and the decoder is re-invoked on a
// growing buffer, requests are abandoned half-way (client gone, invalid
// argument, request over the size limit) and every answered message goes back
// to MsgPool and is decoded into again. This monitor replays such histories on
// one goroutine - connection after connection, request after request - and
// judges every request that completes:
//
//	- each fragment's map key (the slot the proxy routes it by) equals the
//	  reference slot of the fragment's first key (C05),
//	- a multi-key request's fragments equal the reference per-slot split (C06),
//	- a single-key request has exactly one fragment carrying the request bytes.
//
// Messages are returned to the pool the way flushDone does after the reply was
// written, so that whatever an earlier request left behind meets a later one.

type lifeItem struct {
	kind   string // multi single oversize abandon invalid
	m      multiCase
	raw    []byte
	key    []byte // single
	cuts   []int
	cutAt  int // abandon: prefix length delivered before the client goes away
	expect string
}

func lifeKey(rng *rand.Rand) []byte {
	switch rng.Intn(9) {
	case 0: // long plain key
		return randBytes(rng, 257+rng.Intn(3000), true)
	case 1: // long key whose tag closes beyond the first 256 bytes
		pre := bytes.Repeat([]byte("p"), rng.Intn(300))
		tag := []byte(SlotTag(rng.Intn(16384)))
		if rng.Intn(2) == 0 {
			tag = append(bytes.Repeat([]byte("t"), 200+rng.Intn(200)), tag...)
		}
		k := append(append(append(pre, '{'), tag...), '}')
		return append(k, bytes.Repeat([]byte("s"), rng.Intn(400))...)
	case 2: // text with bytes >= 0x80
		words := []string{"ключ", "鍵", "clé", "schlüssel", "🔑", "مفتاح"}
		return []byte(fmt.Sprintf("%s:%d:%s", words[rng.Intn(len(words))], rng.Intn(1000), words[rng.Intn(len(words))]))
	case 3:
		return genKey(rng)
	case 4: // keys of slot 0 and 16383 (boundaries of the slot space)
		return []byte("{" + SlotTag([]int{0, 16383}[rng.Intn(2)]) + "}" + fmt.Sprint(rng.Intn(100)))
	case 5:
		return []byte{}
	default:
		return []byte("{" + SlotTag(rng.Intn(16384)) + "}" + fmt.Sprint(rng.Intn(1000)))
	}
}

func lifeSingle(rng *rand.Rand) ([]byte, []byte) {
	key := lifeKey(rng)
	if len(key) == 0 {
		key = []byte("k")
	}
	switch rng.Intn(7) {
	case 0:
		return EncodeReq([]byte("SET"), key, randBytes(rng, rng.Intn(40), true)), key
	case 1:
		return EncodeReq([]byte("hset"), key, []byte("f"), []byte("v")), key
	case 2:
		return EncodeReq([]byte("EVAL"), []byte("return 1"), []byte("1"), key, []byte("a")), key
	case 3:
		return EncodeReq([]byte("evalsha"), []byte("da39a3ee5e6b4b0d3255bfef95601890afd80709"), []byte("1"), key), key
	case 4:
		return EncodeReq([]byte("Expire"), key, []byte("10")), key
	default:
		return EncodeReq([]byte("GET"), key), key
	}
}

func lifeMulti(rng *rand.Rand, maxKeys int) multiCase {
	m := genMulti(rng, maxKeys)
	// more hostile key shapes than genMulti's
	for i := range m.Keys {
		if rng.Intn(4) == 0 {
			m.Keys[i] = lifeKey(rng)
		}
	}
	if rng.Intn(6) == 0 && len(m.Keys) > 0 {
		// the first key in slot 0 / the last slot
		m.Keys[0] = []byte("{" + SlotTag([]int{0, 16383}[rng.Intn(2)]) + "}h" + fmt.Sprint(rng.Intn(50)))
	}
	return m
}

func randCuts(rng *rand.Rand, n int) []int {
	if n < 2 || rng.Intn(2) == 0 {
		return nil
	}
	var cuts []int
	k := 1 + rng.Intn(4)
	for i := 0; i < k; i++ {
		cuts = append(cuts, 1+rng.Intn(n-1))
	}
	// ascending, distinct
	for i := range cuts {
		for j := i + 1; j < len(cuts); j++ {
			if cuts[j] < cuts[i] {
				cuts[i], cuts[j] = cuts[j], cuts[i]
			}
		}
	}
	out := cuts[:0]
	for i, c := range cuts {
		if i == 0 || c != cuts[i-1] {
			out = append(out, c)
		}
	}
	return out
}

func judgeSingle(msg *core.Msg, raw, key []byte, shape string, wit map[string]interface{}) {
	if len(msg.Body) != 1 {
		addViol(Viol{Class: "single-key-fragment-count", Shape: shape, Detail: fmt.Sprintf("%d fragments for a single-key request", len(msg.Body)), Witness: wit})
		return
	}
	for slot, f := range msg.Body {
		if int(slot) != KeySlot(key) {
			addViol(Viol{Class: "slot-differs-from-key-slot", Shape: shape, Detail: fmt.Sprintf("single-key request routed by slot %d, the key's slot is %d (key of %d bytes)", slot, KeySlot(key), len(key)), Witness: wit})
		}
		// byte-exact apart from the letter case of the command name
		ga, gn, gerr := ParseRequestAsRedis(f.Req)
		wa, _, _ := ParseRequestAsRedis(raw)
		same := gerr == nil && gn == len(f.Req) && len(ga) == len(wa) && len(f.Req) == len(raw)
		for i := 0; same && i < len(wa); i++ {
			if i == 0 {
				same = strings.EqualFold(string(ga[0]), string(wa[0]))
			} else {
				same = bytes.Equal(ga[i], wa[i])
			}
		}
		if !same {
			addViol(Viol{Class: "single-key-request-altered", Shape: shape, Detail: fmt.Sprintf("fragment differs from the request in more than the command's letter case (%d vs %d bytes)", len(f.Req), len(raw)), Witness: wit})
		}
	}
	count("life_single_checked", 1)
}

// judgeMultiMsg compares a decoded multi-key message with the reference split,
// including the slot each fragment is filed under.
func judgeMultiMsg(m multiCase, msg *core.Msg, shape string, wit map[string]interface{}) {
	ref := refFragments(m)
	if len(msg.Body) != len(ref) {
		var d []string
		for _, f := range msg.Body {
			d = append(d, Q(f.Req[:minI(len(f.Req), 120)]))
		}
		wit["fragments_head"] = d
		addViol(Viol{Class: "fragment-count", Shape: shape, Detail: fmt.Sprintf("%d fragments for %d distinct slots", len(msg.Body), len(ref)), Witness: wit})
		return
	}
	for slot, f := range msg.Body {
		args, n, perr := ParseRequestAsRedis(f.Req)
		if perr != nil || n != len(f.Req) || len(args) < 2 {
			addViol(Viol{Class: "fragment-malformed", Shape: shape, Detail: fmt.Sprintf("fragment %s does not parse as one RESP command with keys: %v", Q(f.Req[:minI(len(f.Req), 200)]), perr), Witness: wit})
			return
		}
		if strings.ToLower(string(args[0])) != m.Kind {
			addViol(Viol{Class: "fragment-wrong-command", Shape: shape, Detail: fmt.Sprintf("fragment command %q for a %s request", args[0], m.Kind), Witness: wit})
			return
		}
		ks := KeySlot(args[1])
		if int(slot) != ks {
			addViol(Viol{Class: "slot-differs-from-key-slot", Shape: shape, Detail: fmt.Sprintf("fragment filed under slot %d, its first key's slot is %d", slot, ks), Witness: wit})
			return
		}
		want := ref[ks]
		if len(want) != len(args)-1 {
			addViol(Viol{Class: "fragment-keys-differ", Shape: shape, Detail: fmt.Sprintf("slot %d: fragment has %d args, reference %d", ks, len(args)-1, len(want)), Witness: wit})
			return
		}
		for i := range want {
			if !bytes.Equal(want[i], args[1+i]) {
				addViol(Viol{Class: "fragment-keys-differ", Shape: shape, Detail: fmt.Sprintf("slot %d arg %d: got %s want %s", ks, i, Q(args[1+i]), Q(want[i])), Witness: wit})
				return
			}
		}
	}
	count("life_multi_checked", 1)
}

func runLife(seed int64, n int) {
	initCore()
	rng := rand.New(rand.NewSource(seed*7907 + 11))
	distinct := map[string]struct{}{}
	var history []string
	note := func(s string) {
		history = append(history, s)
		if len(history) > 12 {
			history = history[len(history)-12:]
		}
	}
	done := 0
	for done < n {
		// one connection
		limit := 6 << 20
		if rng.Intn(3) == 0 {
			limit = 600 + rng.Intn(6000)
		}
		cc := core.CRespCodec{MsgMaxLength: limit}
		sc := &stubConn{}
		reqs := 1 + rng.Intn(12)
		for r := 0; r < reqs && done < n; r++ {
			done++
			if done%5000 == 0 {
				setLast(fmt.Sprintf("life seed=%d index=%d", seed*7907+11, done))
			}
			var it lifeItem
			x := rng.Intn(100)
			switch {
			case x < 50:
				it.kind = "multi"
				it.m = lifeMulti(rng, 300)
				it.raw = it.m.encode(rng)
			case x < 75:
				it.kind = "single"
				it.raw, it.key = lifeSingle(rng)
			case x < 85:
				it.kind = "abandon"
				it.m = lifeMulti(rng, 40)
				it.raw = it.m.encode(rng)
			default:
				it.kind = "invalid"
				it.m = lifeMulti(rng, 20)
				raw := it.m.encode(rng)
				// a valid head (command and at least the first key when there is room),
				// then an argument header that can never be valid
				args, _, _ := ParseRequestAsRedis(raw)
				keep := 1 + rng.Intn(len(args))
				head := fmt.Sprintf("*%d\r\n", len(args)+1)
				var b []byte
				b = append(b, head...)
				for _, a := range args[:keep] {
					b = append(b, fmt.Sprintf("$%d\r\n", len(a))...)
					b = append(b, a...)
					b = append(b, "\r\n"...)
				}
				b = append(b, []string{"$x\r\n", ":5\r\n", "$-3\r\nab\r\n", "+OK\r\n"}[rng.Intn(4)]...)
				it.raw = b
			}
			over := len(it.raw) > limit
			shape := fmt.Sprintf("%s/after:%s", it.kind, lastOf(history))
			if over {
				shape = "oversize-" + shape
			}
			distinct[fmt.Sprintf("%s/%v/%d", shape, over, bucket(len(it.m.Keys)))] = struct{}{}
			wit := map[string]interface{}{"request_head": Q(it.raw[:minI(len(it.raw), 300)]), "request_bytes": len(it.raw), "size_limit": limit, "history_before": append([]string(nil), history...)}
			switch it.kind {
			case "abandon":
				cut := 1 + rng.Intn(len(it.raw)-1)
				sc.buf = append([]byte(nil), it.raw[:cut]...)
				msg, err := cc.Decode(sc)
				if err == nil && msg != nil {
					// a strict prefix of one request can itself never be a complete request
					addViol(Viol{Class: "prefix-decoded-as-request", Shape: shape, Detail: fmt.Sprintf("the first %d of %d bytes were decoded as a complete request", cut, len(it.raw)), Witness: wit})
				}
				note(fmt.Sprintf("abandon(%s,%d keys,cut %d/%d)", it.m.Kind, len(it.m.Keys), cut, len(it.raw)))
				r = reqs // the client is gone: next connection
				continue
			case "invalid":
				sc.buf = append([]byte(nil), it.raw...)
				msg, err := cc.Decode(sc)
				if err == nil && msg != nil {
					core.MsgPool.Put(msg)
				}
				note(fmt.Sprintf("invalid(%s,%d keys)->%v", it.m.Kind, len(it.m.Keys), err))
				r = reqs // connection closed
				continue
			}
			// delivery in pieces: every strict prefix must be "incomplete"
			cuts := randCuts(rng, len(it.raw))
			bad := false
			for _, cut := range cuts {
				sc.buf = append([]byte(nil), it.raw[:cut]...)
				msg, err := cc.Decode(sc)
				if err == codec.ErrInvalidResp {
					addViol(Viol{Class: "valid-prefix-rejected", Shape: shape, Detail: fmt.Sprintf("the first %d of %d bytes of a well-formed request were rejected as invalid", cut, len(it.raw)), Witness: wit})
					bad = true
					break
				}
				if err == nil && msg != nil {
					addViol(Viol{Class: "prefix-decoded-as-request", Shape: shape, Detail: fmt.Sprintf("the first %d of %d bytes were decoded as a complete request", cut, len(it.raw)), Witness: wit})
					bad = true
					break
				}
			}
			if bad {
				r = reqs
				continue
			}
			sc.buf = append([]byte(nil), it.raw...)
			msg, err := cc.Decode(sc)
			if err != nil || msg == nil {
				addViol(Viol{Class: "split-decode-failed", Shape: shape, Detail: fmt.Sprintf("decoder returned err=%v msg=%v for a complete well-formed request (delivered with cuts %v)", err, msg != nil, cuts), Witness: wit})
				r = reqs
				continue
			}
			if len(sc.buf) != 0 {
				addViol(Viol{Class: "split-consumed-wrong-length", Shape: shape, Detail: fmt.Sprintf("%d bytes left after decoding one complete request", len(sc.buf)), Witness: wit})
				sc.buf = nil
			}
			wit["cuts"] = cuts
			switch {
			case over:
				if msg.Type != codec.ReqTooLarge {
					addViol(Viol{Class: "oversize-not-flagged", Shape: shape, Detail: fmt.Sprintf("request of %d bytes with limit %d is not marked too large", len(it.raw), limit), Witness: wit})
				}
				note(fmt.Sprintf("oversize(%s,%d keys)", it.kind, len(it.m.Keys)))
			case msg.Type == codec.ReqTooLarge:
				addViol(Viol{Class: "in-limit-request-flagged-too-large", Shape: shape, Detail: fmt.Sprintf("request of %d bytes with limit %d is marked too large", len(it.raw), limit), Witness: wit})
			case it.kind == "single":
				judgeSingle(msg, it.raw, it.key, shape, wit)
				note("single")
			default:
				judgeMultiMsg(it.m, msg, shape, wit)
				note(fmt.Sprintf("%s(%d keys)", it.m.Kind, len(it.m.Keys)))
			}
			// the reply was written: the message goes back to the pool
			core.MsgPool.Put(msg)
		}
	}
	res.Evals += int64(done)
	res.Distinct += int64(len(distinct))
	count("life_requests", int64(done))
}

func lastOf(h []string) string {
	if len(h) == 0 {
		return "start"
	}
	s := h[len(h)-1]
	if i := strings.IndexAny(s, "(-"); i > 0 {
		s = s[:i]
	}
	return s
}
