package main

import (
	"fmt"
	"math/rand"
	"strconv"
	"strings"
	"sync"

	"rcproxy/core/pkg/hashkit"

	. "vcheck/lib"
)

// braceShape maps a key to its arrangement of braces: other bytes become x,
// runs of x collapse. This is the "shape of the failing input".
func braceShape(k []byte) string {
	var sb strings.Builder
	lastX := false
	for _, c := range k {
		switch c {
		case '{', '}':
			sb.WriteByte(c)
			lastX = false
		default:
			if !lastX {
				sb.WriteByte('x')
			}
			lastX = true
		}
		if sb.Len() > 24 {
			sb.WriteString("..")
			break
		}
	}
	if sb.Len() == 0 {
		return "empty"
	}
	return sb.String()
}

func checkKey(k []byte) bool {
	got := int(hashkit.Hash(string(k)))
	want := KeySlot(k)
	if got != want {
		addViol(Viol{Class: "slot-mismatch", Shape: braceShape(k),
			Detail:  fmt.Sprintf("key %s: proxy slot %d, cluster key slot %d", strconv.Quote(string(k)), got, want),
			Witness: map[string]interface{}{"key": strconv.Quote(string(k)), "proxy_slot": got, "spec_slot": want}})
		return false
	}
	return true
}

func runC05(seed int64, n, exh, workers int) {
	if err := SelfCheckSlot(); err != nil {
		res.Notes = append(res.Notes, "SELF-CHECK FAILED: "+err.Error())
		return
	}
	shapes := map[string]struct{}{}
	var shMu sync.Mutex
	var evals int64
	slotsHit := make([]bool, 16384)

	// 1. exhaustive: every string of length <= exh over {, }, a, b, NUL
	alpha := []byte{'{', '}', 'a', 'b', 0}
	setLast(fmt.Sprintf("c05 exhaustive alphabet={,},a,b,NUL maxlen=%d", exh))
	buf := make([]byte, 0, exh)
	var rec func(depth int)
	rec = func(depth int) {
		checkKey(buf)
		evals++
		shapes[braceShape(buf)] = struct{}{}
		if depth == exh {
			return
		}
		for _, a := range alpha {
			buf = append(buf, a)
			rec(depth + 1)
			buf = buf[:len(buf)-1]
		}
	}
	rec(0)
	count("exhaustive_strings", evals)
	// 2. all 1- and 2-byte strings
	setLast("c05 exhaustive all 1- and 2-byte strings")
	for a := 0; a < 256; a++ {
		checkKey([]byte{byte(a)})
		evals++
		for b := 0; b < 256; b++ {
			k := []byte{byte(a), byte(b)}
			checkKey(k)
			slotsHit[KeySlot(k)] = true
			evals++
		}
	}
	count("all_1_2_byte_strings", 256+65536)
	// 3. random, brace heavy
	var wg sync.WaitGroup
	per := n / workers
	for w := 0; w < workers; w++ {
		wg.Add(1)
		go func(w int) {
			defer wg.Done()
			rng := rand.New(rand.NewSource(seed*131 + int64(w)))
			local := map[string]struct{}{}
			for i := 0; i < per; i++ {
				if i%100000 == 0 {
					setLast(fmt.Sprintf("c05 random worker=%d seed=%d index=%d", w, seed*131+int64(w), i))
				}
				k := genKey(rng)
				checkKey(k)
				if len(local) < 5000 {
					local[braceShape(k)] = struct{}{}
				}
				if i < 3 && w == 0 {
					sample(map[string]interface{}{"key": strconv.Quote(string(k)), "spec_slot": KeySlot(k), "shape": braceShape(k)})
				}
			}
			shMu.Lock()
			for s := range local {
				shapes[s] = struct{}{}
			}
			shMu.Unlock()
		}(w)
	}
	wg.Wait()
	evals += int64(per * workers)
	count("random_keys", int64(per*workers))
	hit := 0
	for _, h := range slotsHit {
		if h {
			hit++
		}
	}
	count("distinct_slots_hit_by_2byte_keys", int64(hit))
	res.Evals = evals
	res.Distinct = int64(len(shapes))
}

func genKey(rng *rand.Rand) []byte {
	switch rng.Intn(4) {
	case 0: // structured prefix{tag}suffix nests
		var b []byte
		parts := 1 + rng.Intn(4)
		for p := 0; p < parts; p++ {
			b = append(b, randBytes(rng, rng.Intn(6), false)...)
			if rng.Intn(3) > 0 {
				b = append(b, '{')
			}
			b = append(b, randBytes(rng, rng.Intn(5), false)...)
			if rng.Intn(3) > 0 {
				b = append(b, '}')
			}
		}
		return b
	case 1: // brace heavy binary
		l := rng.Intn(40)
		b := make([]byte, l)
		for i := range b {
			switch rng.Intn(5) {
			case 0:
				b[i] = '{'
			case 1:
				b[i] = '}'
			default:
				b[i] = byte(rng.Intn(256))
			}
		}
		return b
	default:
		return randBytes(rng, rng.Intn(300), true)
	}
}

func randBytes(rng *rand.Rand, n int, any bool) []byte {
	b := make([]byte, n)
	for i := range b {
		if any {
			b[i] = byte(rng.Intn(256))
		} else {
			b[i] = "abcxyz\x00\xff\r\n 01"[rng.Intn(13)]
		}
	}
	return b
}
