package main

import (
	"bytes"
	"strconv"
)

func itoa(n int) string                     { return strconv.Itoa(n) }
func bytesEq(a, b []byte) bool              { return bytes.Equal(a, b) }
func bytesContains(a []byte, s string) bool { return bytes.Contains(a, []byte(s)) }
