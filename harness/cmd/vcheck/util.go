package main

import (
	"bytes"
	"os"
	"strconv"
)

func itoa(n int) string                     { return strconv.Itoa(n) }
func bytesEq(a, b []byte) bool              { return bytes.Equal(a, b) }
func bytesContains(a []byte, s string) bool { return bytes.Contains(a, []byte(s)) }

func readFile(p string) ([]byte, error) { return os.ReadFile(p) }
