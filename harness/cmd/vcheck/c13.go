package main

import (
	"fmt"
	"math/rand"
	"sync"
	"time"

	. "vcheck/lib"
)

func init() { register("C13", "exploration", runC13) }

type slotRedir struct {
	kind   string // "moved", "ask", "moved-then-ask"
	from   *Node
	to     *Node
	to2    *Node // for chains
}

type c13world struct {
	mu      sync.Mutex
	redir   map[int]*slotRedir
	bounces map[string]int // token -> times seen at any node
	noAsking []string      // tokens served at an importing node without ASKING (after stabilisation)
	loops   map[string]bool
	script  *Script
}

// handler implements what a conforming cluster does with moved / migrating slots.
func (w *c13world) handler(r *BReq) Action {
	key := FirstKey(r)
	slot := KeySlot([]byte(key))
	w.mu.Lock()
	rd := w.redir[slot]
	var act *Action
	if rd != nil {
		w.bounces[key]++
		n := w.bounces[key]
		moved := func(to *Node) *Action {
			return &Action{Reply: ErrReply(fmt.Sprintf("MOVED %d %s", slot, to.Addr))}
		}
		ask := func(to *Node) *Action { return &Action{Reply: ErrReply(fmt.Sprintf("ASK %d %s", slot, to.Addr))} }
		if n > 8 {
			// bounded restatement of "terminates": after 8 visits the harness stabilises the slot
			w.loops[key] = true
		} else {
			switch rd.kind {
			case "moved":
				if r.Node == rd.from {
					act = moved(rd.to)
				}
			case "ask":
				if r.Node == rd.from {
					act = ask(rd.to)
				} else if r.Node == rd.to && !r.Asking {
					act = moved(rd.from)
				}
			case "moved-then-ask":
				switch r.Node {
				case rd.from:
					act = moved(rd.to)
				case rd.to:
					act = ask(rd.to2)
				case rd.to2:
					if !r.Asking {
						act = moved(rd.to)
					}
				}
			}
		}
	}
	w.mu.Unlock()
	if act != nil {
		// redirects are answered at once, never gated
		return *act
	}
	return w.script.Handler(r)
}

func runC13(c *Check, rng *rand.Rand) {
	c.Rule = "slots that have moved (old owner answers MOVED), are migrating (old owner answers ASK, the importing node serves only the command right after ASKING and otherwise answers MOVED back) or both in a chain; the redirected request is a single-key request or a fragment of a split one, at every position of pipelines of length <= 8, mixed with gated normal traffic released in random order; oracle: the client sees exactly the normal replies in pipeline order, the importing node saw ASKING immediately before the re-sent command, no request visits nodes more than 8 times; distinct = (redirect kind, request kind, position, pipeline length)"
	c.Assumptions = []string{
		"non-termination is restated as 'the same request is seen more than 8 times by the nodes'; the harness then stabilises the slot so the run can go on",
		"redirect targets are nodes the proxy knows (part of its current topology)",
	}
	env, err := NewEnv(EnvOpt{Masters: 6})
	must(err, "start env")
	defer env.Close()
	script := NewScript()
	w := &c13world{redir: map[int]*slotRedir{}, bounces: map[string]int{}, loops: map[string]bool{}, script: script}
	env.Cl.SetHandler(w.handler)
	kinds := []string{"moved", "ask", "moved-then-ask"}
	episodes := 0
	for plen := 1; plen <= c.Pick(5, 8); plen++ {
		for pos := 0; pos < plen; pos++ {
			for _, kind := range kinds {
				for _, split := range []bool{false, true} {
					reps := c.Pick(1, 6)
					for rep := 0; rep < reps; rep++ {
						if !env.P.Alive() {
							c.Violate(Violation{Class: "proxy-died", Shape: "redirects", Detail: env.P.PanicLine(), Witness: env.P.OutputTail(2000)})
							return
						}
						c13episode(c, rng, env, w, kind, split, plen, pos)
						episodes++
					}
				}
			}
		}
	}
	c.MinEvals = 30
}

func c13episode(c *Check, rng *rand.Rand, env *Env, w *c13world, kind string, split bool, plen, pos int) {
	g := &pipeGen{env: env, script: w.script, rng: rng, gated: true, maxMultiKeys: 4, wSingle: 3, wMulti: 1, wPing: 1}
	p := g.pipeline(plen)
	// the redirected request
	slot := rng.Intn(16384)
	owner := env.T.Owner(slot).Node
	others := []*Node{}
	for _, tn := range env.T.Nodes {
		if tn.Node != owner {
			others = append(others, tn.Node)
		}
	}
	rng.Shuffle(len(others), func(i, j int) { others[i], others[j] = others[j], others[i] })
	rd := &slotRedir{kind: kind, from: owner, to: others[0], to2: others[1]}
	w.mu.Lock()
	w.redir[slot] = rd
	w.mu.Unlock()
	tok := newToken("x")
	var rr *PReq
	if split {
		k1 := Key(slot, tok+".0")
		s2 := (slot + 5000) % 16384
		k2 := Key(s2, tok+".1")
		k3 := Key(slot, tok+".2")
		rr = &PReq{Kind: "mget", Token: tok, Keys: []string{k1, k2, k3}, Bytes: Req("MGET", k1, k2, k3),
			Expect: ArrayReply(BulkReply([]byte("v:"+k1)), BulkReply([]byte("v:"+k2)), BulkReply([]byte("v:"+k3)))}
		gt := NewGate()
		w.script.Plan(k2).Gate = gt
		rr.Gates = []*Gate{gt}
		rr.Nodes = []int{g.ownerIdx(s2)}
	} else {
		k := Key(slot, tok)
		rr = &PReq{Kind: "get", Token: tok, Keys: []string{k}, Bytes: Req("GET", k), Expect: BulkReply([]byte("v:" + k))}
	}
	p[pos] = rr
	cl, err := env.Dial()
	must(err, "dial")
	defer cl.Close()
	cl.Send(concatReqs(p))
	env.Barrier()
	var gates []*Gate
	for _, r := range p {
		gates = append(gates, r.Gates...)
	}
	rng.Shuffle(len(gates), func(i, j int) { gates[i], gates[j] = gates[j], gates[i] })
	for _, gt := range gates {
		gt.Open()
		if rng.Intn(3) == 0 {
			env.Barrier()
		}
	}
	ok := cl.WaitReplies(len(p), 4*time.Second)
	if !ok && env.P.Alive() {
		env.Barrier()
		time.Sleep(time.Second)
		env.Barrier()
	}
	s := cl.Snapshot()
	reqKind := "single-key"
	if split {
		reqKind = "fragment"
	}
	shape := kind + "/" + reqKind
	wit := map[string]interface{}{"redirect": kind, "request_kind": reqKind, "pipeline": reqStrings(p), "redirected_position": pos,
		"slot": slot, "old_owner": rd.from.Addr, "target": rd.to.Addr, "received": valStrings(s.Replies)}
	c.Eval(1)
	c.Distinct(fmt.Sprintf("%s/%s/%d/%d", kind, reqKind, plen, pos))
	// termination
	w.mu.Lock()
	looped := false
	var keys []string
	for _, k := range rr.Keys {
		if w.loops[k] {
			looped = true
		}
		keys = append(keys, k)
	}
	visits := 0
	for _, k := range keys {
		visits += w.bounces[k]
		delete(w.bounces, k)
		delete(w.loops, k)
	}
	delete(w.redir, slot)
	w.mu.Unlock()
	wit["node_visits_of_redirected_keys"] = visits
	if looped {
		c.Violate(Violation{Class: "redirect-does-not-terminate", Shape: shape, Detail: fmt.Sprintf("the redirected request bounced between nodes more than 8 times (%s)", kind), Witness: wit})
	}
	// ASKING before the re-sent command on the importing node
	if kind != "moved" && !looped {
		imp := rd.to
		if kind == "moved-then-ask" {
			imp = rd.to2
		}
		served := false
		for _, bc := range imp.Conns() {
			for _, q := range bc.Requests() {
				for _, k := range keys {
					if FirstKey(q) == k && q.Asking {
						served = true
					}
				}
			}
		}
		if !served {
			c.Violate(Violation{Class: "ask-without-asking", Shape: shape, Detail: "the importing node never received the re-sent command right after ASKING", Witness: wit})
		}
	}
	for _, is := range checkPipeline(p, s) {
		if looped && (is.Class == "missing-replies" || is.Class == "wrong-reply-at-position") {
			continue // consequence of the loop already reported
		}
		c.Violate(Violation{Class: "redirect/" + is.Class, Shape: shape, Detail: is.Detail, Witness: wit})
	}
	if !looped {
		c.Count("redirected_requests_checked", 1)
	}
	for _, r := range p {
		w.script.Forget(r.Keys...)
	}
	if plen == 3 && pos == 1 {
		c.Sample(wit)
	}
}
