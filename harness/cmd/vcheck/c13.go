package main

import (
	"bytes"
	"fmt"
	"math/rand"
	"strings"
	"sync"
	"time"

	. "vcheck/lib"
)

func init() { register("C13", "exploration", runC13) }

type slotRedir struct {
	kind string // "moved", "ask", "moved-then-ask"
	from *Node
	to   *Node
	to2  *Node // for chains
}

type c13world struct {
	mu       sync.Mutex
	redir    map[int]*slotRedir
	bounces  map[string]int // token -> times seen at any node
	noAsking []string       // tokens served at an importing node without ASKING (after stabilisation)
	loops    map[string]bool
	script   *Script
}

// handler implements what a conforming cluster does with moved / migrating slots.
func (w *c13world) handler(r *BReq) Action {
	key := FirstKey(r)
	slot := KeySlot([]byte(key))
	w.mu.Lock()
	rd := w.redir[slot]
	var act *Action
	if rd != nil {
		w.bounces[key]++
		n := w.bounces[key]
		moved := func(to *Node) *Action {
			return &Action{Reply: ErrReply(fmt.Sprintf("MOVED %d %s", slot, to.Addr))}
		}
		ask := func(to *Node) *Action { return &Action{Reply: ErrReply(fmt.Sprintf("ASK %d %s", slot, to.Addr))} }
		if n > 8 {
			// bounded restatement of "terminates": after 8 visits the harness stabilises the slot
			w.loops[key] = true
		} else {
			switch rd.kind {
			case "moved":
				if r.Node == rd.from {
					act = moved(rd.to)
				}
			case "ask":
				if r.Node == rd.from {
					act = ask(rd.to)
				} else if r.Node == rd.to && !r.Asking {
					act = moved(rd.from)
				}
			case "moved-then-ask":
				switch r.Node {
				case rd.from:
					act = moved(rd.to)
				case rd.to:
					act = ask(rd.to2)
				case rd.to2:
					if !r.Asking {
						act = moved(rd.to)
					}
				}
			}
		}
	}
	w.mu.Unlock()
	if act != nil {
		// redirects are answered at once, never gated
		return *act
	}
	return w.script.Handler(r)
}

func runC13(c *Check, rng *rand.Rand) {
	c.Rule = "slots that have moved (old owner answers MOVED), are migrating (old owner answers ASK, the importing node serves only the command right after ASKING and otherwise answers MOVED back) or both in a chain; the redirected request is a single-key request or a fragment of a split one, at every position of pipelines of length <= 8, mixed with gated normal traffic released in random order; oracle: the client sees exactly the normal replies in pipeline order, the importing node saw ASKING immediately before the re-sent command, no request visits nodes more than 8 times; distinct = (redirect kind, request kind, position, pipeline length)"
	c.Assumptions = []string{
		"non-termination is restated as 'the same request is seen more than 8 times by the nodes'; the harness then stabilises the slot so the run can go on",
		"redirect targets are nodes the proxy knows (part of its current topology)",
		"third configuration: every node is named localhost:port instead of 127.0.0.1:port in CLUSTER NODES, in redirects and in the proxy configuration",
	}
	c13config(c, rng, 1)
	c13config(c, rng, 2)
	// the same with every node named by host name (CLUSTER NODES, redirects, configuration)
	FakeHost = "localhost"
	c13config(c, rng, 1)
	FakeHost = "127.0.0.1"
	c.MinEvals = 30
}

func c13config(c *Check, rng *rand.Rand, serverConns int) {
	env, err := NewEnv(EnvOpt{Masters: 6, Cfg: ProxyCfg{ServerConnections: serverConns}})
	must(err, "start env")
	defer env.Close()
	script := NewScript()
	w := &c13world{redir: map[int]*slotRedir{}, bounces: map[string]int{}, loops: map[string]bool{}, script: script}
	env.Cl.SetHandler(w.handler)
	if serverConns > 1 {
		// several connections per node: only the ASK / MOVED episodes (the order-sensitive
		// pipeline oracle assumes one connection per node)
		for i := 0; i < c.Pick(30, 300) && env.P.Alive() && c.NViol() < 12; i++ {
			c13episode(c, rng, env, w, []string{"ask", "moved", "moved-then-ask"}[i%3], false, 1, 0)
		}
		return
	}
	kinds := []string{"moved", "ask", "moved-then-ask"}
	episodes := 0
	for plen := 1; plen <= c.Pick(5, 8); plen++ {
		for pos := 0; pos < plen; pos++ {
			for _, kind := range kinds {
				for _, split := range []bool{false, true} {
					reps := c.Pick(1, 6)
					for rep := 0; rep < reps; rep++ {
						if !env.P.Alive() {
							c.Violate(Violation{Class: "proxy-died", Shape: "redirects", Detail: env.P.PanicLine(), Witness: env.P.OutputTail(2000)})
							return
						}
						if c.NViol() >= 12 {
							// a broken redirect path makes every further episode wait for its
							// watchdogs: enough has been seen
							c.Count("stopped_after_12_violations", 1)
							return
						}
						c13episode(c, rng, env, w, kind, split, plen, pos)
						episodes++
					}
				}
			}
		}
	}
	// several redirected requests in flight at the same time (same pipeline and
	// several clients), all kinds mixed
	for ep := 0; ep < c.Pick(12, 200); ep++ {
		if !env.P.Alive() {
			c.Violate(Violation{Class: "proxy-died", Shape: "concurrent-redirects", Detail: env.P.PanicLine(), Witness: env.P.OutputTail(2500)})
			return
		}
		if c.NViol() >= 12 {
			c.Count("stopped_after_12_violations", 1)
			return
		}
		c13concurrent(c, rng, env, w)
	}
	c13lateRedirect(c, rng, env, w)
}

// c13lateRedirect: a split request is completed by one fragment's error before its
// sibling answers with a redirect; the redirect belongs to a request that is already
// answered and must simply be dropped.
func c13lateRedirect(c *Check, rng *rand.Rand, env *Env, w *c13world) {
	for i := 0; i < c.Pick(12, 200) && env.P.Alive(); i++ {
		kind := []string{"mset", "del", "mget"}[i%3]
		// slow request, erroring fragment and redirected fragment on three different nodes;
		// the redirect names a fourth one
		slowSlot := rng.Intn(16384)
		slowNode := env.T.Owner(slowSlot).Node
		r := c07genNodes(rng, env, kind, 2, 2, slowNode)
		r.override = map[int][]byte{}
		r.override[r.slots[0]] = ErrReply("OOM command not allowed when used memory > 'maxmemory'.")
		var target *Node
		for _, tn := range env.T.Nodes {
			if tn.Node != slowNode && tn.Node != env.T.Owner(r.slots[0]).Node && tn.Node != env.T.Owner(r.slots[1]).Node {
				target = tn.Node
			}
		}
		kw := []string{"MOVED", "ASK"}[i%2]
		r.override[r.slots[1]] = ErrReply(fmt.Sprintf("%s %d %s", kw, r.slots[1], target.Addr))
		gates := r.install(w.script, true)
		cl, err := env.Dial()
		must(err, "dial")
		// a slow request in front keeps the answered request queued for a while
		slowKey := Key(slowSlot, newToken("sl"))
		sg := NewGate()
		w.script.Plan(slowKey).Gate = sg
		cl.Send(append(Req("GET", slowKey), r.raw...))
		env.Barrier()
		gates[0].Open()
		// the error reply has left its node before the barrier starts (a barrier orders what
		// the proxy has received, not what a node is still about to write)
		errKey := string(r.keys[r.groups[r.slots[0]][0]])
		for k := 0; k < 2500; k++ {
			if pl := w.script.Lookup(errKey); pl != nil {
				if seen := pl.SeenReqs(); len(seen) > 0 && seen[len(seen)-1].Replied() != 0 {
					break
				}
			}
			time.Sleep(2 * time.Millisecond)
		}
		env.Barrier()
		if i%2 == 0 {
			sg.Open() // flushed (and its message recycled) before the redirect arrives
			cl.WaitReplies(2, 3*time.Second)
			env.Barrier()
		}
		gates[1].Open()
		env.Barrier()
		sg.Open()
		fk := Key(rng.Intn(16384), newToken("fu"))
		cl.Send(Req("GET", fk))
		ok := cl.WaitReplies(3, 4*time.Second)
		s := cl.Snapshot()
		wit := map[string]interface{}{"request": Q(r.raw), "redirect": kw, "received": valStrings(s.Replies)}
		c.Eval(1)
		c.Distinct(fmt.Sprintf("late-redirect/%s/%s/%d", kind, kw, i%2))
		switch {
		case !env.P.Alive():
			wit["stderr"] = env.P.OutputTail(2000)
			c.Violate(Violation{Class: "proxy-died", Shape: "redirect-for-an-answered-request", Detail: "a " + kw + " reply arrived for a fragment whose request had already been answered: " + env.P.PanicLine(), Witness: wit})
			return
		case !ok:
			c.Violate(Violation{Class: "redirect/missing-replies", Shape: "redirect-for-an-answered-request", Detail: fmt.Sprintf("%d of 3 replies", len(s.Replies)), Witness: wit})
		case s.Replies[1].Val.Kind != '-' || !bytes.Equal(s.Replies[2].Val.Raw, BulkReply([]byte("v:"+fk))) || !bytes.Equal(s.Replies[0].Val.Raw, BulkReply([]byte("v:"+slowKey))):
			c.Violate(Violation{Class: "redirect/wrong-reply-at-position", Shape: "redirect-for-an-answered-request", Detail: "replies around a late redirect are wrong", Witness: wit})
		default:
			c.Count("redirected_requests_checked", 1)
		}
		// the dropped fragment must not have been re-sent
		for _, bc := range target.Conns() {
			for _, q := range bc.Requests() {
				if string(FirstKey(q)) == string(r.keys[r.groups[r.slots[1]][0]]) {
					c.Violate(Violation{Class: "redirect-followed-for-an-answered-request", Shape: "redirect-for-an-answered-request", Detail: "the fragment of an already answered request was re-sent to " + target.Addr, Witness: wit})
				}
			}
		}
		cl.Close()
		r.forget(w.script)
		w.script.Forget(slowKey)
	}
}

func c13concurrent(c *Check, rng *rand.Rand, env *Env, w *c13world) {
	nclients := 1 + rng.Intn(3)
	type cstate struct {
		cl *Client
		p  []*PReq
	}
	var cs []*cstate
	var slots []int
	kindsUsed := map[string]int{}
	for ci := 0; ci < nclients; ci++ {
		cl, err := env.Dial()
		must(err, "dial")
		st := &cstate{cl: cl}
		n := 2 + rng.Intn(5)
		for i := 0; i < n; i++ {
			slot := rng.Intn(16384)
			owner := env.T.Owner(slot).Node
			var others []*Node
			for _, tn := range env.T.Nodes {
				if tn.Node != owner {
					others = append(others, tn.Node)
				}
			}
			rng.Shuffle(len(others), func(a, b int) { others[a], others[b] = others[b], others[a] })
			kind := []string{"ask", "ask", "moved", "moved-then-ask"}[rng.Intn(4)]
			kindsUsed[kind]++
			w.mu.Lock()
			if _, dup := w.redir[slot]; !dup {
				w.redir[slot] = &slotRedir{kind: kind, from: owner, to: others[0], to2: others[1]}
				slots = append(slots, slot)
			}
			w.mu.Unlock()
			k := Key(slot, newToken("y"))
			st.p = append(st.p, &PReq{Kind: "get", Keys: []string{k}, Bytes: Req("GET", k), Expect: BulkReply([]byte("v:" + k))})
		}
		cs = append(cs, st)
	}
	for _, st := range cs {
		st.cl.Send(concatReqs(st.p))
	}
	ok := true
	for _, st := range cs {
		if !st.cl.WaitReplies(len(st.p), 4*time.Second) {
			ok = false
		}
	}
	if !ok && env.P.Alive() {
		env.Barrier()
		time.Sleep(time.Second)
		env.Barrier()
	}
	if !env.P.Alive() {
		c.Violate(Violation{Class: "proxy-died", Shape: "concurrent-redirects", Detail: "several redirected requests in flight at once: " + env.P.PanicLine(),
			Witness: map[string]interface{}{"redirect_kinds": kindsUsed, "stderr": env.P.OutputTail(2500)}})
	}
	c.Eval(1)
	c.Distinct(fmt.Sprintf("concurrent/%d/%v", nclients, kindsUsed))
	for _, st := range cs {
		s := st.cl.Snapshot()
		for _, is := range checkPipeline(st.p, s) {
			c.Violate(Violation{Class: "redirect/" + is.Class, Shape: "concurrent-redirects", Detail: is.Detail,
				Witness: map[string]interface{}{"redirect_kinds": kindsUsed, "pipeline": reqStrings(st.p), "received": valStrings(s.Replies)}})
		}
		st.cl.Close()
		c.Count("redirected_requests_checked", int64(len(st.p)))
	}
	w.mu.Lock()
	for _, s := range slots {
		delete(w.redir, s)
	}
	for _, st := range cs {
		for _, r := range st.p {
			if w.loops[r.Keys[0]] {
				c.Violate(Violation{Class: "redirect-does-not-terminate", Shape: "concurrent-redirects", Detail: "a redirected request bounced more than 8 times"})
			}
			delete(w.bounces, r.Keys[0])
			delete(w.loops, r.Keys[0])
		}
	}
	w.mu.Unlock()
}

func c13episode(c *Check, rng *rand.Rand, env *Env, w *c13world, kind string, split bool, plen, pos int) {
	g := &pipeGen{env: env, script: w.script, rng: rng, gated: true, maxMultiKeys: 4, wSingle: 3, wMulti: 1, wPing: 1}
	p := g.pipeline(plen)
	// the redirected request (now and then in the first or the last slot: 0 is also the
	// zero value of every slot variable)
	slot := rng.Intn(16384)
	if rng.Intn(5) == 0 {
		slot = []int{0, 16383, 0}[rng.Intn(3)]
	}
	owner := env.T.Owner(slot).Node
	others := []*Node{}
	for _, tn := range env.T.Nodes {
		if tn.Node != owner {
			others = append(others, tn.Node)
		}
	}
	rng.Shuffle(len(others), func(i, j int) { others[i], others[j] = others[j], others[i] })
	rd := &slotRedir{kind: kind, from: owner, to: others[0], to2: others[1]}
	w.mu.Lock()
	w.redir[slot] = rd
	w.mu.Unlock()
	// key lengths vary so that the re-sent request is anything from 40 to 250 bytes long
	tok := newToken("x") + strings.Repeat("p", []int{0, 0, 20, 40, 60, 90, 130, 200}[rng.Intn(8)])
	var rr *PReq
	if split {
		k1 := Key(slot, tok+".0")
		s2 := (slot + 5000) % 16384
		k2 := Key(s2, tok+".1")
		k3 := Key(slot, tok+".2")
		rr = &PReq{Kind: "mget", Token: tok, Keys: []string{k1, k2, k3}, Bytes: Req("MGET", k1, k2, k3),
			Expect: ArrayReply(BulkReply([]byte("v:"+k1)), BulkReply([]byte("v:"+k2)), BulkReply([]byte("v:"+k3)))}
		gt := NewGate()
		w.script.Plan(k2).Gate = gt
		rr.Gates = []*Gate{gt}
		rr.Nodes = []int{g.ownerIdx(s2)}
	} else if rng.Intn(6) == 0 {
		// a request far larger than any buffer the proxy keeps per fragment
		k := Key(slot, tok)
		val := strings.Repeat("V", 70000+rng.Intn(200000))
		rr = &PReq{Kind: "get", Token: tok, Keys: []string{k}, Bytes: Req("SET", k, val), Expect: StatusReply("OK")}
	} else {
		k := Key(slot, tok)
		rr = &PReq{Kind: "get", Token: tok, Keys: []string{k}, Bytes: Req("GET", k), Expect: BulkReply([]byte("v:" + k))}
	}
	p[pos] = rr
	cl, err := env.Dial()
	must(err, "dial")
	defer cl.Close()
	cl.Send(concatReqs(p))
	env.Barrier()
	var gates []*Gate
	for _, r := range p {
		gates = append(gates, r.Gates...)
	}
	rng.Shuffle(len(gates), func(i, j int) { gates[i], gates[j] = gates[j], gates[i] })
	for _, gt := range gates {
		gt.Open()
		if rng.Intn(3) == 0 {
			env.Barrier()
		}
	}
	ok := cl.WaitReplies(len(p), 4*time.Second)
	if !ok && env.P.Alive() {
		env.Barrier()
		time.Sleep(time.Second)
		env.Barrier()
	}
	s := cl.Snapshot()
	reqKind := "single-key"
	if split {
		reqKind = "fragment"
	}
	shape := kind + "/" + reqKind
	wit := map[string]interface{}{"redirect": kind, "request_kind": reqKind, "pipeline": reqStrings(p), "redirected_position": pos,
		"slot": slot, "old_owner": rd.from.Addr, "target": rd.to.Addr, "received": valStrings(s.Replies)}
	c.Eval(1)
	c.Distinct(fmt.Sprintf("%s/%s/%d/%d", kind, reqKind, plen, pos))
	// termination
	w.mu.Lock()
	looped := false
	var keys []string
	for _, k := range rr.Keys {
		if w.loops[k] {
			looped = true
		}
		keys = append(keys, k)
	}
	visits := 0
	for _, k := range keys {
		visits += w.bounces[k]
		delete(w.bounces, k)
		delete(w.loops, k)
	}
	delete(w.redir, slot)
	w.mu.Unlock()
	wit["node_visits_of_redirected_keys"] = visits
	if looped {
		c.Violate(Violation{Class: "redirect-does-not-terminate", Shape: shape, Detail: fmt.Sprintf("the redirected request bounced between nodes more than 8 times (%s)", kind), Witness: wit})
	}
	// ASKING before the re-sent command on the importing node
	if kind != "moved" && !looped {
		imp := rd.to
		if kind == "moved-then-ask" {
			imp = rd.to2
		}
		served := false
		for _, bc := range imp.Conns() {
			for _, q := range bc.Requests() {
				for _, k := range keys {
					if FirstKey(q) == k && q.Asking {
						served = true
					}
				}
			}
		}
		if !served {
			c.Violate(Violation{Class: "ask-without-asking", Shape: shape, Detail: "the importing node never received the re-sent command right after ASKING", Witness: wit})
		}
	}
	for _, is := range checkPipeline(p, s) {
		if looped && (is.Class == "missing-replies" || is.Class == "wrong-reply-at-position") {
			continue // consequence of the loop already reported
		}
		c.Violate(Violation{Class: "redirect/" + is.Class, Shape: shape, Detail: is.Detail, Witness: wit})
	}
	if !looped {
		c.Count("redirected_requests_checked", 1)
	}
	for _, r := range p {
		w.script.Forget(r.Keys...)
	}
	if plen == 3 && pos == 1 {
		c.Sample(wit)
	}
}
