package main

import (
	"fmt"
	"math/rand"
	"sync"
	"time"

	. "vcheck/lib"
)

func init() { register("C01", "exploration", runC01) }

type c01case struct {
	clients   int
	plen      int
	order     string // fifo lifo random bynode
	chunked   bool
	barriered bool
}

func runC01(c *Check, rng *rand.Rand) {
	c.Rule = "case = (per-client kind sequence, backend release order, chunking); a second environment has a slot range without owner and its pipelines also contain single-key and split requests with a key in it (answered by the proxy itself while their neighbours are in flight); distinct = kind-sequence signature x release strategy x chunked; non-trivial = pipeline has >=2 requests"
	c.Assumptions = []string{
		"fake cluster answers each backend connection in request order (like Redis); cross-node order is dictated by gates",
		"quiescence = all gates open + 8 event-loop rounds on a witness connection; missing replies re-checked after 1 s and a second barrier",
	}
	type cfg struct {
		name string
		opt  EnvOpt
	}
	// "gap": a slot range of master 3 has no owner; pipelines also contain requests
	// with a key in it (single-key, or split with routable keys around the bad one),
	// which the proxy answers itself while their neighbours are in flight
	gapTopo := func(cl *Cluster) *Topo {
		t := EvenTopo(cl, 8, 0)
		r := t.Nodes[3].Slots[0]
		t.Nodes[3].Slots[0] = [2]int{r[0], r[1] - 200}
		return t
	}
	// "limit": a small reply size limit; now and then one fragment of a split MGET is
	// answered with more than that (the request is answered with an error, whatever its
	// siblings do and whenever they answer)
	cfgs := []cfg{{"default", EnvOpt{Masters: 8}}, {"gap", EnvOpt{Masters: 8, Topo: gapTopo}}, {"limit", EnvOpt{Masters: 8, Cfg: ProxyCfg{MsgMax: 3000}}}}
	if c.Thorough() {
		cfgs = append(cfgs,
			cfg{"password+replicas", EnvOpt{Masters: 4, Replicas: 1, Cfg: ProxyCfg{Password: "sekret"}}},
			cfg{"streambuf64", EnvOpt{Masters: 8, Cfg: ProxyCfg{StreamBuf: 64}}},
			cfg{"race", EnvOpt{Masters: 8, Mode: "race"}},
		)
	}
	ncases := c.Pick(220, 4000)
	var wg sync.WaitGroup
	for ci, cf := range cfgs {
		wg.Add(1)
		go func(ci int, cf cfg) {
			defer wg.Done()
			defer func() {
				if r := recover(); r != nil {
					if ie, ok := r.(infraErr); ok {
						c.Inconclusive("[%s] %s", cf.name, string(ie))
						return
					}
					panic(r)
				}
			}()
			lrng := rand.New(rand.NewSource(c.Seed*1000 + int64(ci)))
			n := ncases
			if ci > 0 {
				n = ncases / 3
			}
			if cf.name == "gap" || cf.name == "limit" {
				n = ncases / 2
			}
			c01config(c, lrng, cf.name, cf.opt, n)
		}(ci, cf)
	}
	wg.Wait()
	c.MinEvals = 50
}

func c01config(c *Check, rng *rand.Rand, name string, opt EnvOpt, ncases int) {
	env, err := NewEnv(opt)
	must(err, "start env "+name)
	defer env.Close()
	script := NewScript()
	env.Cl.SetHandler(script.Handler)
	orders := []string{"fifo", "lifo", "random", "bynode"}
	for i := 0; i < ncases; i++ {
		if !env.P.Alive() {
			c.Violate(Violation{Class: "proxy-died", Shape: "during-pipelines", Detail: env.P.PanicLine(), Witness: env.P.OutputTail(3000)})
			must(env.Restart(), "restart proxy")
		}
		cs := c01case{
			clients:   1 + rng.Intn(3),
			plen:      1 + rng.Intn(c.Pick(24, 200)),
			order:     orders[rng.Intn(len(orders))],
			chunked:   rng.Intn(3) == 0,
			barriered: rng.Intn(4) == 0,
		}
		if i%7 == 0 {
			cs.clients = 1 + rng.Intn(16)
			cs.plen = 1 + rng.Intn(8)
		}
		g := &pipeGen{env: env, script: script, rng: rng, gated: true, maxMultiKeys: 5, errFrag: []int{0, 3, 6}[rng.Intn(3)]}
		// mix ratios, including "local behind gated forwarded"
		switch rng.Intn(5) {
		case 0:
			g.wSingle, g.wMulti, g.wPing, g.wAuth, g.wReject, g.wQuit = 5, 2, 3, 1, 2, 1
		case 1:
			g.wSingle, g.wMulti, g.wPing, g.wAuth, g.wReject, g.wQuit = 8, 0, 1, 0, 0, 0
		case 2:
			g.wSingle, g.wMulti, g.wPing, g.wAuth, g.wReject, g.wQuit = 2, 6, 1, 1, 1, 0
		case 3:
			g.wSingle, g.wMulti, g.wPing, g.wAuth, g.wReject, g.wQuit = 1, 1, 5, 2, 4, 1
		default:
			g.wSingle, g.wMulti, g.wPing, g.wAuth, g.wReject, g.wQuit = 4, 4, 0, 0, 0, 0
		}
		if name == "gap" {
			g.wUnroutable = 1 + rng.Intn(3)
		}
		if name == "limit" {
			g.bigFrag = 2
			g.bigSize = 3200
			if g.wMulti == 0 {
				g.wMulti = 3
			}
		}
		c01run(c, rng, env, g, cs, name)
	}
	if name == "gap" || name == "limit" {
		return
	}
	// deep pipelines: more than 1024 (the writev limit) completed replies behind a slow head
	for k := 0; k < c.Pick(1, 6); k++ {
		n := 1100 + rng.Intn(1500)
		logged := env.Cl.LogLen()
		cl, p, gate, err := deepPipeline(env, script, rng, n)
		must(err, "deep pipeline")
		// every request has reached its node (all but the head are answered at once) and the
		// proxy has digested those replies: only then is the head released
		for i := 0; i < 2000 && env.Cl.LogLen()-logged < n; i++ {
			time.Sleep(5 * time.Millisecond)
		}
		env.Barrier()
		time.Sleep(50 * time.Millisecond)
		env.Barrier()
		gate.Open()
		if !cl.WaitReplies(n, 10*time.Second) {
			env.Barrier()
			time.Sleep(time.Second)
			env.Barrier()
		}
		// first verdict: what the client holds now, before anything else happens on the
		// connection (a later request would flush replies that were being withheld)
		s0 := cl.Snapshot()
		first := checkPipeline(p, s0)
		for _, is := range first {
			c.Violate(Violation{Class: is.Class, Shape: "deep-pipeline-behind-slow-head", Detail: is.Detail[:minInt(len(is.Detail), 200)],
				Witness: map[string]interface{}{"config": name, "requests": n, "replies": len(s0.Replies), "shape": "first request gated, all later ones answered at once"}})
		}
		// then three more requests on the same connection: what the big flush left in the
		// queue shows up in front of their replies
		var more []*PReq
		g2 := &pipeGen{env: env, script: script, rng: rng, gated: false, maxMultiKeys: 3, wSingle: 2, wPing: 1}
		more = g2.pipeline(3)
		cl.Send(concatReqs(more))
		cl.WaitReplies(n+3, 5*time.Second)
		p = append(p, more...)
		s := cl.Snapshot()
		if len(first) == 0 {
			for _, is := range checkPipeline(p, s) {
				c.Violate(Violation{Class: is.Class, Shape: "deep-pipeline-behind-slow-head", Detail: is.Detail[:minInt(len(is.Detail), 200)],
					Witness: map[string]interface{}{"config": name, "requests": n, "replies": len(s.Replies), "shape": "first request gated, all later ones answered at once, then three more requests"}})
			}
		}
		c.Eval(1)
		c.Distinct(fmt.Sprintf("%s|deep|%d", name, n))
		c.Count("replies_verified", int64(len(s.Replies)))
		cl.Close()
		for _, r := range p {
			script.Forget(r.Keys...)
		}
	}
	// a reader that alternates between reading and not reading: the order of the bytes
	// in the outbound backlog is the order of the replies
	c02stopAndGo(c, env, script, int64(ncases)+int64(len(name)), name)
	c.Count("race_reports_diagnostic_"+name, int64(env.P.RaceReports()))
}

type gateRef struct {
	g    *Gate
	node int
	cli  int
	pos  int
}

func c01run(c *Check, rng *rand.Rand, env *Env, g *pipeGen, cs c01case, cfgName string) {
	pipes := make([][]*PReq, cs.clients)
	clients := make([]*Client, cs.clients)
	var gates []gateRef
	var allKeys []string
	for i := range pipes {
		pipes[i] = g.pipeline(cs.plen)
		cl, err := env.Dial()
		must(err, "dial proxy")
		clients[i] = cl
		for pos, r := range pipes[i] {
			for gi, gt := range r.Gates {
				gates = append(gates, gateRef{gt, r.Nodes[gi], i, pos})
			}
			allKeys = append(allKeys, r.Keys...)
		}
	}
	defer func() {
		for _, cl := range clients {
			cl.Close()
		}
		g.script.Forget(allKeys...)
	}()
	// send
	var wg sync.WaitGroup
	for i := range pipes {
		wg.Add(1)
		go func(i int) {
			defer wg.Done()
			b := concatReqs(pipes[i])
			if cs.chunked {
				var sizes []int
				for rem := len(b); rem > 0; {
					s := 1 + rng.Intn(40)
					sizes = append(sizes, s)
					rem -= s
				}
				clients[i].SendChunks(b, sizes, 0)
			} else {
				clients[i].Send(b)
			}
		}(i)
		if cs.chunked {
			// rng is not goroutine safe: serialize chunk planning
			wg.Wait()
		}
	}
	wg.Wait()
	if err := env.Barrier(); err != nil {
		if !env.P.Alive() {
			c.Violate(Violation{Class: "proxy-died", Shape: "during-pipelines", Detail: env.P.PanicLine(), Witness: map[string]interface{}{"pipelines": sigs(pipes), "stderr": env.P.OutputTail(3000)}})
			must(env.Restart(), "restart proxy")
			return
		}
		infra("barrier: %v", err)
	}
	// release
	switch cs.order {
	case "lifo":
		for i, j := 0, len(gates)-1; i < j; i, j = i+1, j-1 {
			gates[i], gates[j] = gates[j], gates[i]
		}
	case "random":
		rng.Shuffle(len(gates), func(i, j int) { gates[i], gates[j] = gates[j], gates[i] })
	case "bynode":
		perm := rng.Perm(64)
		sortGates(gates, func(a, b gateRef) bool {
			if a.node != b.node {
				return perm[a.node%64] < perm[b.node%64]
			}
			return false
		})
	}
	for i, gr := range gates {
		gr.g.Open()
		if cs.barriered && i < 12 {
			env.Barrier()
		}
	}
	// wait for completion
	ok := true
	for i, cl := range clients {
		want := expectedCount(pipes[i])
		if !cl.WaitReplies(want, 3*time.Second) {
			ok = false
		}
	}
	if err := env.Barrier(); err != nil && env.P.Alive() {
		infra("barrier: %v", err)
	}
	if !ok {
		// not yet: give deferred softirq work a second, pass another barrier
		time.Sleep(time.Second)
		env.Barrier()
	} else {
		time.Sleep(2 * time.Millisecond)
	}
	nreq := 0
	for i, cl := range clients {
		if expectedCount(pipes[i]) < len(pipes[i]) || pipes[i][len(pipes[i])-1].Kind == "quit" {
			cl.WaitClosed(500 * time.Millisecond)
		}
		s := cl.Snapshot()
		nreq += len(pipes[i])
		c.Count("replies_verified", int64(len(s.Replies)))
		for _, is := range checkPipeline(pipes[i], s) {
			c.Violate(Violation{Class: is.Class, Shape: is.Shape, Detail: is.Detail, Witness: map[string]interface{}{
				"config": cfgName, "client": i, "pipeline": reqStrings(pipes[i]), "release_order": cs.order, "chunked": cs.chunked,
				"received": valStrings(s.Replies), "closed": s.Closed,
			}})
		}
	}
	c.Eval(1)
	c.Count("requests", int64(nreq))
	if nreq >= 2 {
		sig := fmt.Sprintf("%s|%s|%v|%v", cfgName, cs.order, cs.chunked, sigs(pipes))
		c.Distinct(sig)
	}
	c.Sample(map[string]interface{}{"config": cfgName, "pipelines": sigs(pipes), "release": cs.order, "chunked": cs.chunked})
}

func sortGates(g []gateRef, less func(a, b gateRef) bool) {
	// stable insertion sort (small)
	for i := 1; i < len(g); i++ {
		for j := i; j > 0 && less(g[j], g[j-1]); j-- {
			g[j], g[j-1] = g[j-1], g[j]
		}
	}
}

func sigs(pipes [][]*PReq) []string {
	out := make([]string, len(pipes))
	for i, p := range pipes {
		out[i] = kindSig(p)
	}
	return out
}

func reqStrings(p []*PReq) []string {
	out := make([]string, len(p))
	for i, r := range p {
		out[i] = Q(r.Bytes)
	}
	return out
}

func valStrings(rs []Recv) []string {
	out := make([]string, 0, len(rs))
	for i, r := range rs {
		if i >= 40 {
			out = append(out, fmt.Sprintf("...(%d total)", len(rs)))
			break
		}
		out = append(out, r.Val.String())
	}
	return out
}
