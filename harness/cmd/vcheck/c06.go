package main

import (
	"fmt"
	"math/rand"
	"sync"
	"time"

	. "vcheck/lib"
)

func init() { register("C06", "exploration", runC06) }

func runC06(c *Check, rng *rand.Rand) {
	c.Rule = "E2: random MGET/DEL/MSET key lists (1..2000 keys; duplicates, hash tags into few slots, empty/binary/CRLF keys and values, brace-hostile keys, random letter case) through the real client decoder, fragments compared with the reference per-slot split; decoder life-cycle monitor: histories of requests on successive connections (delivery in pieces, abandoned / invalid / oversized requests in between, every answered message returned to MsgPool and reused) judged the same way; E1: the same kind of requests over TCP, fragments as logged by the fake nodes; distinct = (kind, key count, distinct slots)"
	c.Assumptions = []string{"fragment command names are compared case-insensitively; fragments must be canonical RESP"}
	n, life := "60000", "60000"
	if c.Thorough() {
		n, life = "3000000", "3000000"
	}
	if r := runE2(c, "", "c06", 40*time.Minute, "--n", n, "--life", life); r != nil {
		c.DistinctN(r.Distinct)
	}
	if c.Thorough() {
		runE2(c, "race", "c06", 40*time.Minute, "--n", "300000", "--life", "200000")
	}
	c06wire(c, rng)
	c06burst(c, rng)
}

// c06wire sends multi-key requests through the real proxy and compares the
// commands the fake nodes logged with the reference split.
func c06wire(c *Check, rng *rand.Rand) {
	env, err := NewEnv(EnvOpt{Masters: 6})
	must(err, "start env")
	defer env.Close()
	cl, err := env.Dial()
	must(err, "dial")
	defer cl.Close()
	n := c.Pick(300, 10000)
	got := 0
	for i := 0; i < n; i++ {
		tok := newToken("w")
		kind := []string{"mget", "del", "mset"}[rng.Intn(3)]
		nk := 1 + rng.Intn(12)
		if rng.Intn(10) == 0 {
			nk = 1 + rng.Intn(c.Pick(300, 2000))
		}
		ntags := 1 + rng.Intn(5)
		tags := make([]string, ntags)
		for j := range tags {
			tags[j] = SlotTag(rng.Intn(16384))
		}
		var keys, vals [][]byte
		for j := 0; j < nk; j++ {
			var k string
			switch rng.Intn(6) {
			case 0:
				if j > 0 {
					k = string(keys[rng.Intn(j)])
				} else {
					k = tok + ".dup"
				}
			case 1, 2:
				k = "{" + tags[rng.Intn(ntags)] + "}" + tok + "." + itoa(rng.Intn(40))
			case 3:
				k = tok + "\r\n$3\r\n" + itoa(j)
			case 4:
				k = "}" + tok + "{" + tags[rng.Intn(ntags)] + "}" + itoa(j)
			default:
				k = tok + ":" + itoa(j)
			}
			keys = append(keys, []byte(k))
			vals = append(vals, []byte("v\r\n"+itoa(j)))
		}
		name := []byte(kind)
		for j := range name {
			if rng.Intn(2) == 0 {
				name[j] ^= 0x20
			}
		}
		args := [][]byte{name}
		for j, k := range keys {
			args = append(args, k)
			if kind == "mset" {
				args = append(args, vals[j])
			}
		}
		raw := EncodeReq(args...)
		before := env.Cl.LogLen()
		must(cl.Send(raw), "send")
		got++
		if !cl.WaitReplies(got, 10*time.Second) {
			if !env.P.Alive() {
				c.Violate(Violation{Class: "proxy-died", Shape: kind, Detail: env.P.PanicLine(), Witness: map[string]interface{}{"request": Q(raw), "stderr": env.P.OutputTail(2000)}})
				return
			}
			infra("no reply to a multi-key request within 10 s: %s", Q(raw))
		}
		log := env.Cl.Log()[before:]
		// reference split
		ref := map[int][][]byte{}
		for j, k := range keys {
			s := KeySlot(k)
			ref[s] = append(ref[s], k)
			if kind == "mset" {
				ref[s] = append(ref[s], vals[j])
			}
		}
		shape := kind
		wit := map[string]interface{}{"request": Q(raw)}
		var frs []string
		used := map[int]bool{}
		bad := false
		nfr := 0
		for _, r := range log {
			if !containsTok(r, tok) {
				continue
			}
			nfr++
			frs = append(frs, Q(r.Raw))
			if r.Cmd != kind {
				c.Violate(Violation{Class: "fragment-wrong-command", Shape: shape, Detail: "node received " + r.Cmd + " for a " + kind + " request", Witness: wit})
				bad = true
				break
			}
			if !bytesEq(EncodeReq(r.Args...), r.Raw) {
				c.Violate(Violation{Class: "fragment-not-canonical", Shape: shape, Detail: "fragment on the wire is not canonical RESP: " + Q(r.Raw), Witness: wit})
			}
			if len(r.Args) < 2 {
				c.Violate(Violation{Class: "fragment-empty", Shape: shape, Detail: "fragment without keys: " + Q(r.Raw), Witness: wit})
				bad = true
				break
			}
			s := KeySlot(r.Args[1])
			want := ref[s]
			if used[s] || len(want) != len(r.Args)-1 {
				c.Violate(Violation{Class: "fragment-keys-differ", Shape: shape, Detail: "fragment " + Q(r.Raw) + " does not equal the reference group of slot " + itoa(s), Witness: wit})
				bad = true
				break
			}
			used[s] = true
			for j := range want {
				if !bytesEq(want[j], r.Args[j+1]) {
					c.Violate(Violation{Class: "fragment-keys-differ", Shape: shape, Detail: "fragment " + Q(r.Raw) + " differs from the reference group of slot " + itoa(s), Witness: wit})
					bad = true
					break
				}
			}
		}
		if !bad && nfr != len(ref) {
			wit["fragments"] = frs
			c.Violate(Violation{Class: "fragment-count", Shape: shape, Detail: itoa(nfr) + " fragments on the wire for " + itoa(len(ref)) + " distinct slots", Witness: wit})
		}
		c.Eval(1)
		c.Count("wire_fragments_checked", int64(nfr))
		if nk >= 2 {
			c.Distinct("wire/" + kind + "/" + itoa(nk) + "/" + itoa(len(ref)))
		}
		if i < 2 {
			c.Sample(map[string]interface{}{"engine": "E1", "request": Q(raw), "fragments_on_wire": frs})
		}
	}
}

// c06burst: several multi-key requests per write from two clients at once, on a
// proxy with a small request size limit (every request is below it, the burst is
// above it); fragments are attributed by token and compared with the reference split.
func c06burst(c *Check, rng *rand.Rand) {
	// slots 16000..16383 have no owner: a request touching them is answered with an error
	// and must not leave a single fragment at any node
	env, err := NewEnv(EnvOpt{Masters: 6, Cfg: ProxyCfg{MsgMax: 400}, Topo: func(cl *Cluster) *Topo {
		t := EvenTopo(cl, 6, 0)
		r := t.Nodes[5].Slots[0]
		t.Nodes[5].Slots[0] = [2]int{r[0], 15999}
		return t
	}})
	must(err, "start env")
	defer env.Close()
	type mreq struct {
		kind     string
		tok      string
		keys     [][]byte
		vals     [][]byte
		raw      []byte
		unrouted bool
	}
	gen := func() *mreq {
		m := &mreq{kind: []string{"mget", "del", "mset"}[rng.Intn(3)], tok: newToken("u")}
		nk := 2 + rng.Intn(5)
		for j := 0; j < nk; j++ {
			k := m.tok + ":" + itoa(j)
			if rng.Intn(3) == 0 {
				k = "{" + SlotTag(rng.Intn(16000)) + "}" + k
			}
			for KeySlot([]byte(k)) >= 16000 {
				k += "x"
			}
			if j > 0 && rng.Intn(12) == 0 {
				k = "{" + SlotTag(16000+rng.Intn(384)) + "}" + k // unowned slot
				m.unrouted = true
			}
			m.keys = append(m.keys, []byte(k))
			m.vals = append(m.vals, []byte("v"+itoa(j)))
		}
		args := [][]byte{randCase(rng, m.kind)}
		for j, k := range m.keys {
			args = append(args, k)
			if m.kind == "mset" {
				args = append(args, m.vals[j])
			}
		}
		m.raw = EncodeReq(args...)
		return m
	}
	rounds := c.Pick(40, 1500)
	for rd := 0; rd < rounds; rd++ {
		if !env.P.Alive() {
			c.Violate(Violation{Class: "proxy-died", Shape: "burst", Detail: env.P.PanicLine(), Witness: env.P.OutputTail(2000)})
			return
		}
		before := env.Cl.LogLen()
		var all []*mreq
		var cls []*Client
		var wg sync.WaitGroup
		nper := make([]int, 2)
		for ci := 0; ci < 2; ci++ {
			cl, err := env.Dial()
			must(err, "dial")
			cls = append(cls, cl)
			var burst []byte
			n := 2 + rng.Intn(6)
			nper[ci] = n
			for k := 0; k < n; k++ {
				m := gen()
				all = append(all, m)
				burst = append(burst, m.raw...)
			}
			wg.Add(1)
			go func(cl *Client, b []byte) { defer wg.Done(); cl.Send(b) }(cl, burst)
		}
		wg.Wait()
		ok := true
		for ci, cl := range cls {
			if !cl.WaitReplies(nper[ci], 10*time.Second) {
				ok = false
			}
		}
		log := env.Cl.Log()[before:]
		for _, cl := range cls {
			cl.Close()
		}
		if !ok {
			c.Violate(Violation{Class: "no-reply-to-burst", Shape: "burst", Detail: "a burst of multi-key requests was not fully answered within 10 s (proxy alive=" + fmt.Sprint(env.P.Alive()) + ")"})
			continue
		}
		for _, m := range all {
			ref := map[int][][]byte{}
			for j, k := range m.keys {
				sl := KeySlot(k)
				ref[sl] = append(ref[sl], k)
				if m.kind == "mset" {
					ref[sl] = append(ref[sl], m.vals[j])
				}
			}
			nfr := 0
			bad := ""
			used := map[int]bool{}
			var frs []string
			if m.unrouted {
				ref = map[int][][]byte{} // nothing may be forwarded
			}
			for _, r := range log {
				if !containsTok(r, m.tok+":") {
					continue
				}
				nfr++
				frs = append(frs, Q(r.Raw))
				if m.unrouted {
					bad = "request with a key in an unowned slot left a fragment at a node: " + Q(r.Raw)
					break
				}
				if len(r.Args) < 2 {
					bad = "fragment without keys: " + Q(r.Raw)
					break
				}
				sl := KeySlot(r.Args[1])
				want := ref[sl]
				if r.Cmd != m.kind || used[sl] || len(want) != len(r.Args)-1 {
					bad = "fragment " + Q(r.Raw) + " does not equal the reference group of slot " + itoa(sl)
					break
				}
				used[sl] = true
				for j := range want {
					if !bytesEq(want[j], r.Args[j+1]) {
						bad = "fragment " + Q(r.Raw) + " differs from the reference group of slot " + itoa(sl)
					}
				}
				if !bytesEq(EncodeReq(r.Args...), r.Raw) {
					bad = "fragment on the wire is not canonical RESP: " + Q(r.Raw)
				}
			}
			if bad == "" && nfr != len(ref) {
				bad = itoa(nfr) + " fragments on the wire for " + itoa(len(ref)) + " distinct slots"
			}
			c.Eval(1)
			c.Distinct("burst/" + m.kind + "/" + itoa(len(m.keys)) + "/" + itoa(len(ref)))
			if bad != "" {
				c.Violate(Violation{Class: "fragment-keys-differ", Shape: "burst/" + m.kind, Detail: "several multi-key requests in one write (limit 400): " + bad,
					Witness: map[string]interface{}{"request": Q(m.raw), "fragments_on_wire": frs}})
			} else {
				c.Count("wire_fragments_checked", int64(nfr))
			}
		}
	}
	if mf := env.Cl.MalformedSeen(); len(mf) > 0 {
		c.Violate(Violation{Class: "fragment-malformed", Shape: "burst", Detail: "a node received a corrupt request stream: " + mf[0].Err + ": " + Q(mf[0].Context)})
	}
}

func containsTok(r *BReq, tok string) bool {
	for _, a := range r.Args[1:] {
		if bytesContains(a, tok) {
			return true
		}
	}
	return false
}
