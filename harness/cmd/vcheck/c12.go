package main

import (
	"bytes"
	"fmt"
	"math/big"
	"math/rand"
	"strconv"
	"os"
	"path/filepath"
	"strings"
	"time"

	. "vcheck/lib"
)

func init() { register("C12", "exploration", runC12) }

type hostile struct {
	data   []byte
	chunks []int
	origin string
}

func mutateNumber(rng *rand.Rand, orig string) string {
	opts := []string{"0", "-1", "-0", "-2", "", "+" + orig, "0" + orig, " " + orig, orig + " ", "99999999999999999999999999999", "18446744073709551616",
		"9223372036854775807", "-9223372036854775808", "2147483648", "4294967296", "1048577", "536870913", "1e3", "0x10", orig + "a", "٣",
		"9223372036854775808", "9223372036854775809", "18446744073709551617", "18446744073709551618", "18446744073709551619", "36893488147419103234",
		"18446744073709551620", "-9223372036854775809", "00000000000000000000" + orig, "184467440737095516160000000003"}
	if v, err := strconv.Atoi(orig); err == nil && rng.Intn(6) == 0 {
		// 2^64 + v: wraps to exactly v in a 64-bit accumulator
		return new(big.Int).Add(new(big.Int).Lsh(big.NewInt(1), 64), big.NewInt(int64(v))).String()
	}
	return opts[rng.Intn(len(opts))]
}

// genHostile produces one hostile input: a valid request stream with a
// grammar-aware mutation, or random bytes.
func genHostile(rng *rand.Rand) hostile {
	var valid []byte
	nreq := 1 + rng.Intn(3)
	for i := 0; i < nreq; i++ {
		switch rng.Intn(4) {
		case 0:
			valid = append(valid, Req("SET", "hk"+itoa(rng.Intn(100)), "value")...)
		case 1:
			valid = append(valid, Req("MGET", "ha", "hb", "hc")...)
		case 2:
			valid = append(valid, Req("PING")...)
		default:
			valid = append(valid, Req("GET", "hk"+itoa(rng.Intn(100)))...)
		}
	}
	h := hostile{origin: "mutation"}
	d := append([]byte(nil), valid...)
	// positions of header lines
	type hdr struct{ start, end int } // [start,end) of the number text
	var hdrs []hdr
	for i := 0; i < len(d); i++ {
		if (d[i] == '*' || d[i] == '$') && (i == 0 || d[i-1] == '\n') {
			j := i + 1
			for j < len(d) && d[j] != '\r' {
				j++
			}
			hdrs = append(hdrs, hdr{i + 1, j})
		}
	}
	switch rng.Intn(16) {
	case 0, 1, 2, 3: // number mutation
		x := hdrs[rng.Intn(len(hdrs))]
		nw := mutateNumber(rng, string(d[x.start:x.end]))
		d = append(append(append([]byte(nil), d[:x.start]...), nw...), d[x.end:]...)
		h.origin = "number-mutation"
	case 4: // wrong type marker
		x := hdrs[rng.Intn(len(hdrs))]
		d[x.start-1] = "+-:$*%~#!x"[rng.Intn(10)]
		h.origin = "type-marker"
	case 5: // bare LF
		i := bytes.Index(d, []byte("\r\n"))
		k := rng.Intn(bytes.Count(d, []byte("\r\n")))
		for ; k > 0; k-- {
			i += 2 + bytes.Index(d[i+2:], []byte("\r\n"))
		}
		d = append(append([]byte(nil), d[:i]...), d[i+1:]...)
		h.origin = "bare-LF"
	case 6: // bare CR
		i := bytes.Index(d, []byte("\r\n"))
		d = append(append(append([]byte(nil), d[:i+1]...)), d[i+2:]...)
		h.origin = "bare-CR"
	case 7: // inline command
		d = []byte([]string{"PING\r\n", "GET foo\r\n", "SET a b\r\n", "get\n", "QUIT\r\n", "\r\n", "\n", " \r\n"}[rng.Intn(8)])
		d = append(d, valid...)
		h.origin = "inline"
	case 8: // truncation followed by garbage
		cut := rng.Intn(len(d) + 1)
		g := make([]byte, 1+rng.Intn(30))
		rng.Read(g)
		d = append(append([]byte(nil), d[:cut]...), g...)
		h.origin = "truncate+garbage"
	case 9: // NULs
		for k := 1 + rng.Intn(4); k > 0; k-- {
			d[rng.Intn(len(d))] = 0
		}
		h.origin = "NULs"
	case 10: // random bytes
		d = make([]byte, 1+rng.Intn(200))
		rng.Read(d)
		h.origin = "random-bytes"
	case 11: // random bytes starting like RESP
		d = make([]byte, 4+rng.Intn(60))
		rng.Read(d)
		copy(d, []byte("*"+itoa(rng.Intn(4))+"\r\n"))
		h.origin = "random-after-count"
	case 12: // only headers, nothing else
		d = []byte([]string{"*\r\n", "*\n", "*2\n", "$3\r\nabc\r\n", "*1\r\n$\r\n", "*1\r\n$1\r\n", "**1\r\n", "*1\r\n\r\n", "*1\r\n$-1\r\n", "*0\r\n", "*-1\r\n", "*1\r\n$0\r\n\r\n"}[rng.Intn(12)])
		if rng.Intn(2) == 0 {
			d = append(d, valid...)
		}
		h.origin = "header-only"
	case 13: // byte flip
		d[rng.Intn(len(d))] ^= byte(1 << uint(rng.Intn(8)))
		h.origin = "bit-flip"
	case 14: // delete / duplicate a byte
		i := rng.Intn(len(d))
		if rng.Intn(2) == 0 {
			d = append(append([]byte(nil), d[:i]...), d[i+1:]...)
		} else {
			d = append(append(append([]byte(nil), d[:i+1]...), d[i]), d[i+1:]...)
		}
		h.origin = "byte-delete/dup"
	default: // payload length off by one
		x := hdrs[rng.Intn(len(hdrs))]
		if d[x.start-1] == '$' {
			var v int
			fmt.Sscan(string(d[x.start:x.end]), &v)
			nw := itoa(v + []int{-1, 1, 2}[rng.Intn(3)])
			d = append(append(append([]byte(nil), d[:x.start]...), nw...), d[x.end:]...)
		}
		h.origin = "length-off-by-one"
	}
	h.data = d
	if rng.Intn(2) == 0 {
		for rem := len(d); rem > 0; {
			s := 1 + rng.Intn(12)
			h.chunks = append(h.chunks, s)
			rem -= s
		}
	}
	return h
}

func runC12(c *Check, rng *rand.Rand) {
	c.Rule = "grammar-based mutations of valid request streams (counts/lengths zero, negative, -0, huge, non-canonical, empty; wrong type markers; bare LF / CR; inline commands; truncation + garbage; NULs; bit flips; random bytes) in random segmentation, batches of connections; oracles: (1) proxy alive, RSS < 8 GB; (2) witness connections keep getting correct replies; (3) the fake nodes' Redis-conformant parser never sees a protocol error; (4) input that is not a prefix of any well-formed request stream ends in an error reply or a closed connection (judged after the event-loop barrier, re-checked after 1 s); distinct = distinct inputs; non-trivial = input differs from a well-formed stream"
	c.Assumptions = []string{
		"well-formed request stream = RESP arrays '*n' (canonical decimal, 1..1048576) of bulk strings '$len' (canonical, 0..512MB) each terminated by CRLF; valid prefixes must simply wait (C08) and oversized-but-well-formed counts/lengths carry no requirement under (4)",
		"(3) flags only what a Redis server rejects with a protocol error (count/length not parsable by string2ll or out of range, missing '$'); stricter findings of the fake parser are reported as 'lenient' diagnostics only",
	}
	modes := []string{""}
	if c.Thorough() {
		modes = []string{"", "race"}
	}
	for _, mode := range modes {
		c12mode(c, rng, mode)
	}
	c.MinEvals = 500
}

func c12mode(c *Check, rng *rand.Rand, mode string) {
	env, err := NewEnv(EnvOpt{Masters: 3, Mode: mode})
	must(err, "start env")
	defer env.Close()
	script := NewScript()
	env.Cl.SetHandler(script.Handler)
	total := c.Pick(2500, 100000)
	if mode != "" {
		total /= 4
	}
	batchSize := 50
	deaths := 0
	casedir := filepath.Join(TmpRoot(), "c12cases")
	os.MkdirAll(casedir, 0o755)
	mfSeen := 0
	for done := 0; done < total; done += batchSize {
		batch := make([]hostile, batchSize)
		var dump strings.Builder
		for i := range batch {
			batch[i] = genHostile(rng)
			fmt.Fprintf(&dump, "%q %v\n", batch[i].data, batch[i].chunks)
		}
		// inputs on disk before sending: a crash is attributed to this batch
		os.WriteFile(filepath.Join(casedir, "last_batch.txt"), []byte(dump.String()), 0o644)
		clients := make([]*Client, batchSize)
		for i, h := range batch {
			cl, err := env.Dial()
			if err != nil {
				break
			}
			clients[i] = cl
			cl.SendChunks(h.data, h.chunks, 0)
		}
		// witness pipeline while the hostile inputs are being digested
		wok := c12witness(c, env, script, rng)
		berr := env.Barrier()
		if !env.P.Alive() {
			deaths++
			culprit := c12bisect(c, env, batch)
			shape := "unknown-input"
			var wit interface{} = dump.String()
			if culprit != nil {
				cls := ClassifyStream(culprit.data)
				shape = cls.State + ":" + cls.Reason
				wit = map[string]interface{}{"input": Q(culprit.data), "chunks": culprit.chunks, "origin": culprit.origin, "panic": env.P.PanicLine()}
			}
			c.Violate(Violation{Class: "proxy-died", Shape: shape, Detail: "proxy process died while digesting hostile client input: " + env.P.PanicLine(), Witness: wit})
			for _, cl := range clients {
				if cl != nil {
					cl.Close()
				}
			}
			must(env.Restart(), "restart proxy")
			env.Cl.SetHandler(script.Handler)
			if deaths > 6 {
				c.Count("batches_skipped_after_7_deaths", int64((total-done)/batchSize))
				break
			}
			continue
		}
		if berr != nil {
			infra("barrier: %v", berr)
		}
		_ = wok
		// (4)
		var recheck []int
		for i, h := range batch {
			if clients[i] == nil {
				continue
			}
			cls := ClassifyStream(h.data)
			c.Eval(1)
			c.Distinct(string(h.data))
			c.Count("inputs_"+cls.State, 1)
			if cls.State != "invalid" {
				continue
			}
			s := clients[i].Snapshot()
			if !(s.Closed || len(s.Replies) > cls.Complete) {
				recheck = append(recheck, i)
			}
		}
		if len(recheck) > 0 {
			time.Sleep(time.Second)
			env.Barrier()
			for _, i := range recheck {
				h := batch[i]
				cls := ClassifyStream(h.data)
				s := clients[i].Snapshot()
				if !(s.Closed || len(s.Replies) > cls.Complete) {
					c.Violate(Violation{Class: "invalid-input-left-waiting", Shape: cls.Reason,
						Detail:  fmt.Sprintf("input is not a prefix of any well-formed request stream (%s at offset %d) but the connection is neither closed nor answered with an error (%d replies for %d complete requests)", cls.Reason, cls.Offset, len(s.Replies), cls.Complete),
						Witness: map[string]interface{}{"input": Q(h.data), "chunks": h.chunks, "origin": h.origin, "received": valStrings(s.Replies)}})
				}
			}
		}
		// extra replies must be errors; no stray bytes
		for i, h := range batch {
			if clients[i] == nil {
				continue
			}
			cls := ClassifyStream(h.data)
			s := clients[i].Snapshot()
			if cls.State == "invalid" && len(s.Replies) > cls.Complete && s.Replies[len(s.Replies)-1].Val.Kind != '-' {
				c.Violate(Violation{Class: "invalid-input-answered-with-success", Shape: cls.Reason,
					Detail:  fmt.Sprintf("invalid input (%s) produced %d replies for %d complete requests, the last one not an error: %s", cls.Reason, len(s.Replies), cls.Complete, s.Replies[len(s.Replies)-1].Val.String()),
					Witness: map[string]interface{}{"input": Q(h.data), "received": valStrings(s.Replies)}})
			}
			clients[i].Close()
		}
		// (3)
		mf := env.Cl.MalformedSeen()
		for _, m := range mf[mfSeen:] {
			if m.Lenient {
				c.Count("lenient_backend_parser_findings(diagnostic)", 1)
				continue
			}
			c.Violate(Violation{Class: "malformed-request-forwarded", Shape: shapeOfProtoErr(m.Err),
				Detail:  fmt.Sprintf("a backend received bytes a Redis server rejects as a protocol error (%s): %s", m.Err, Q(m.Context)),
				Witness: map[string]interface{}{"backend_bytes": Q(m.Context), "batch": dump.String()}})
		}
		mfSeen = len(mf)
		if done == 0 {
			c.Sample(map[string]interface{}{"input": Q(batch[0].data), "chunks": batch[0].chunks, "origin": batch[0].origin, "reference_class": ClassifyStream(batch[0].data)})
			c.Sample(map[string]interface{}{"input": Q(batch[1].data), "origin": batch[1].origin, "reference_class": ClassifyStream(batch[1].data)})
		}
	}
	c.Count("proxy_max_rss_kb_"+modeName(mode), env.P.RSSKB())
	c.Count("race_reports_diagnostic", int64(env.P.RaceReports()))
}

func shapeOfProtoErr(e string) string {
	if i := strings.IndexByte(e, '"'); i > 0 {
		return strings.TrimSpace(e[:i])
	}
	return e
}

// c12witness runs a checked pipeline on a fresh connection; it returns false
// when the pipeline misbehaved.
func c12witness(c *Check, env *Env, script *Script, rng *rand.Rand) bool {
	g := &pipeGen{env: env, script: script, rng: rng, gated: false, maxMultiKeys: 4, wSingle: 4, wMulti: 2, wPing: 1, wReject: 1}
	p := g.pipeline(12)
	cl, err := env.Dial()
	if err != nil {
		return false
	}
	defer cl.Close()
	cl.Send(concatReqs(p))
	if !cl.WaitReplies(len(p), 5*time.Second) {
		for i := 0; i < 20 && env.P.Alive(); i++ {
			time.Sleep(50 * time.Millisecond)
		}
	}
	if !env.P.Alive() {
		return false
	}
	ok := true
	for _, is := range checkPipeline(p, cl.Snapshot()) {
		ok = false
		c.Violate(Violation{Class: "other-connection-disturbed", Shape: is.Class, Detail: "a well-behaved connection running next to hostile ones: " + is.Detail})
	}
	c.Count("witness_pipelines_checked", 1)
	return ok
}

// c12bisect re-sends the batch's inputs one by one to fresh proxies to name
// the input that kills the process (bounded: at most the batch size).
func c12bisect(c *Check, env *Env, batch []hostile) *hostile {
	if err := env.Restart(); err != nil {
		return nil
	}
	for i := range batch {
		cl, err := env.Dial()
		if err != nil {
			return nil
		}
		cl.SendChunks(batch[i].data, batch[i].chunks, 0)
		env.W.Barrier(3, 3*time.Second)
		time.Sleep(2 * time.Millisecond)
		cl.Close()
		if !env.P.Alive() {
			return &batch[i]
		}
	}
	return nil
}
