package main

import (
	"bytes"
	"fmt"
	"math/rand"
	"os"
	"path/filepath"
	"strings"
	"time"

	. "vcheck/lib"
)

func init() { register("C12", "exploration", runC12) }

func runC12(c *Check, rng *rand.Rand) {
	c.Rule = "grammar-based mutations of valid request streams (counts/lengths zero, negative, -0, huge, non-canonical, empty; wrong type markers; bare LF / CR; inline commands; truncation + garbage; NULs; bit flips; random bytes) in random segmentation, batches of connections; oracles: (1) proxy alive, RSS < 8 GB; (2) witness connections keep getting correct replies; (3) the fake nodes' Redis-conformant parser never sees a protocol error; (4) input that is not a prefix of any well-formed request stream ends in an error reply or a closed connection (judged after the event-loop barrier, re-checked after 1 s); distinct = distinct inputs; non-trivial = input differs from a well-formed stream; plus an in-process monitor that feeds the same generator to the real client decoder (hundreds of thousands to millions of inputs) and compares its verdict (requests recognised, invalid / incomplete / complete) with the reference stream classifier, panics included"
	c.Assumptions = []string{
		"well-formed request stream = RESP arrays '*n' (canonical decimal, 1..1048576) of bulk strings '$len' (canonical, 0..512MB) each terminated by CRLF; valid prefixes must simply wait (C08) and oversized-but-well-formed counts/lengths carry no requirement under (4)",
		"(3) flags only what a Redis server rejects with a protocol error (count/length not parsable by string2ll or out of range, missing '$'); stricter findings of the fake parser are reported as 'lenient' diagnostics only",
	}
	modes := []string{""}
	if c.Thorough() {
		modes = []string{"", "race"}
	}
	for _, mode := range modes {
		c12mode(c, rng, mode)
	}
	c12volume(c, rng)
	c12timeouts(c, rng)
	// in-process: the same generator against the real decoder, by the million
	// (one goroutine: the decoder is written for a single-threaded event loop and keeps global scratch state)
	n := "400000"
	if c.Thorough() {
		n = "20000000"
	}
	if r := runE2(c, "", "c12", 40*time.Minute, "--n", n, "--workers", "1"); r != nil {
		c.DistinctN(r.Distinct)
	}
	if c.Thorough() {
		runE2(c, "race", "c12", 40*time.Minute, "--n", "1000000", "--workers", "1")
	}
	c.MinEvals = 500
}

func c12mode(c *Check, rng *rand.Rand, mode string) {
	env, err := NewEnv(EnvOpt{Masters: 3, Mode: mode})
	must(err, "start env")
	defer env.Close()
	script := NewScript()
	env.Cl.SetHandler(script.Handler)
	total := c.Pick(2500, 100000)
	if mode != "" {
		total /= 4
	}
	batchSize := 50
	deaths := 0
	casedir := filepath.Join(TmpRoot(), "c12cases")
	os.MkdirAll(casedir, 0o755)
	mfSeen := 0
	for done := 0; done < total; done += batchSize {
		batch := make([]Hostile, batchSize)
		var dump strings.Builder
		for i := range batch {
			batch[i] = GenHostile(rng)
			fmt.Fprintf(&dump, "%q %v\n", batch[i].Data, batch[i].Chunks)
		}
		// inputs on disk before sending: a crash is attributed to this batch
		os.WriteFile(filepath.Join(casedir, "last_batch.txt"), []byte(dump.String()), 0o644)
		clients := make([]*Client, batchSize)
		for i, h := range batch {
			cl, err := env.Dial()
			if err != nil {
				break
			}
			clients[i] = cl
			cl.SendChunks(h.Data, h.Chunks, 0)
		}
		// witness pipeline while the hostile inputs are being digested
		wok := c12witness(c, env, script, rng)
		berr := env.Barrier()
		if !env.P.Alive() {
			deaths++
			culprit := c12bisect(c, env, batch)
			shape := "unknown-input"
			var wit interface{} = dump.String()
			if culprit != nil {
				cls := ClassifyStream(culprit.Data)
				shape = cls.State + ":" + cls.Reason
				wit = map[string]interface{}{"input": Q(culprit.Data), "chunks": culprit.Chunks, "origin": culprit.Origin, "panic": env.P.PanicLine()}
			}
			c.Violate(Violation{Class: "proxy-died", Shape: shape, Detail: "proxy process died while digesting hostile client input: " + env.P.PanicLine(), Witness: wit})
			for _, cl := range clients {
				if cl != nil {
					cl.Close()
				}
			}
			must(env.Restart(), "restart proxy")
			env.Cl.SetHandler(script.Handler)
			if deaths > 6 {
				c.Count("batches_skipped_after_7_deaths", int64((total-done)/batchSize))
				break
			}
			continue
		}
		if berr != nil {
			infra("barrier: %v", berr)
		}
		_ = wok
		// (4)
		var recheck []int
		for i, h := range batch {
			if clients[i] == nil {
				continue
			}
			cls := ClassifyStream(h.Data)
			c.Eval(1)
			c.Distinct(string(h.Data))
			c.Count("inputs_"+cls.State, 1)
			if cls.State != "invalid" {
				continue
			}
			s := clients[i].Snapshot()
			if !(s.Closed || len(s.Replies) > cls.Complete) {
				recheck = append(recheck, i)
			}
		}
		if len(recheck) > 0 {
			time.Sleep(time.Second)
			env.Barrier()
			for _, i := range recheck {
				h := batch[i]
				cls := ClassifyStream(h.Data)
				s := clients[i].Snapshot()
				if !(s.Closed || len(s.Replies) > cls.Complete) {
					c.Violate(Violation{Class: "invalid-input-left-waiting", Shape: cls.Reason,
						Detail:  fmt.Sprintf("input is not a prefix of any well-formed request stream (%s at offset %d) but the connection is neither closed nor answered with an error (%d replies for %d complete requests)", cls.Reason, cls.Offset, len(s.Replies), cls.Complete),
						Witness: map[string]interface{}{"input": Q(h.Data), "chunks": h.Chunks, "origin": h.Origin, "received": valStrings(s.Replies)}})
				}
			}
		}
		// extra replies must be errors; no stray bytes
		for i, h := range batch {
			if clients[i] == nil {
				continue
			}
			cls := ClassifyStream(h.Data)
			s := clients[i].Snapshot()
			if cls.State == "invalid" && len(s.Replies) > cls.Complete && s.Replies[len(s.Replies)-1].Val.Kind != '-' {
				c.Violate(Violation{Class: "invalid-input-answered-with-success", Shape: cls.Reason,
					Detail:  fmt.Sprintf("invalid input (%s) produced %d replies for %d complete requests, the last one not an error: %s", cls.Reason, len(s.Replies), cls.Complete, s.Replies[len(s.Replies)-1].Val.String()),
					Witness: map[string]interface{}{"input": Q(h.Data), "received": valStrings(s.Replies)}})
			}
			clients[i].Close()
		}
		// (3)
		mf := env.Cl.MalformedSeen()
		for _, m := range mf[mfSeen:] {
			if m.Lenient {
				c.Count("lenient_backend_parser_findings(diagnostic)", 1)
				continue
			}
			c.Violate(Violation{Class: "malformed-request-forwarded", Shape: shapeOfProtoErr(m.Err),
				Detail:  fmt.Sprintf("a backend received bytes a Redis server rejects as a protocol error (%s): %s", m.Err, Q(m.Context)),
				Witness: map[string]interface{}{"backend_bytes": Q(m.Context), "batch": dump.String()}})
		}
		mfSeen = len(mf)
		if done == 0 {
			c.Sample(map[string]interface{}{"input": Q(batch[0].Data), "chunks": batch[0].Chunks, "origin": batch[0].Origin, "reference_class": ClassifyStream(batch[0].Data)})
			c.Sample(map[string]interface{}{"input": Q(batch[1].Data), "origin": batch[1].Origin, "reference_class": ClassifyStream(batch[1].Data)})
		}
	}
	c.Count("proxy_max_rss_kb_"+modeName(mode), env.P.RSSKB())
	c.Count("race_reports_diagnostic", int64(env.P.RaceReports()))
}

// c12timeouts: with a request timeout configured, hostile clients leave requests
// pending (stalled backend) and then send garbage or hang up; the timeouts fire on
// requests whose client is already gone.
func c12timeouts(c *Check, rng *rand.Rand) {
	env, err := NewEnv(EnvOpt{Masters: 3, Cfg: ProxyCfg{Timeout: 300}})
	must(err, "start env")
	defer env.Close()
	script := NewScript()
	env.Cl.SetHandler(script.Handler)
	for round := 0; round < c.Pick(3, 40); round++ {
		var gates []*Gate
		var keys []string
		for k := 0; k < 12; k++ {
			cl, err := env.Dial()
			if err != nil {
				break
			}
			key := Key(rng.Intn(16384), newToken("st"))
			g := NewGate()
			script.Plan(key).Gate = g
			gates = append(gates, g)
			keys = append(keys, key)
			req := Req("GET", key)
			if k%3 == 0 {
				req = Req("MGET", key, Key(rng.Intn(16384), newToken("st")))
			}
			switch k % 4 {
			case 0:
				cl.Send(append(req, []byte("garbage\r\n")...))
			case 1:
				cl.Send(append(req, GenHostile(rng).Data...))
			case 2:
				cl.Send(req)
				env.Barrier()
				cl.Abort()
			default:
				cl.Send(req)
				env.Barrier()
				cl.Close()
			}
			c.Eval(1)
			c.Distinct(fmt.Sprintf("timeout-mode/%d/%d", round, k))
		}
		time.Sleep(1800 * time.Millisecond) // timeouts fire (scan granularity <= ~1.2 s)
		// (no data witness here: the nodes' connections are legitimately blocked by the
		// stalled requests; liveness is the witness connection's PING round trips)
		wok := true
		berr := env.Barrier()
		if !env.P.Alive() {
			c.Violate(Violation{Class: "proxy-died", Shape: "timeout-on-request-of-a-gone-client",
				Detail:  "request timeout configured; clients left requests pending and then sent garbage / hung up; the proxy died: " + env.P.PanicLine(),
				Witness: map[string]interface{}{"stderr": env.P.OutputTail(2500)}})
			return
		}
		if berr != nil {
			infra("barrier: %v", berr)
		}
		_ = wok
		for _, g := range gates {
			g.Open()
		}
		env.Barrier()
		script.Forget(keys...)
	}
	c.Count("timeout_mode_rounds", 1)
}

func shapeOfProtoErr(e string) string {
	if i := strings.IndexByte(e, '"'); i > 0 {
		return strings.TrimSpace(e[:i])
	}
	return e
}

// c12volume: well-formed but extreme input - more requests for one node in a single
// write than fit into one vectored write (1024 entries), and multi-key requests that
// split into more than 1024 fragments for one node. The sender must get every reply
// and other connections (also those talking to that node) must keep being served.
func c12volume(c *Check, rng *rand.Rand) {
	env, err := NewEnv(EnvOpt{Masters: 3})
	must(err, "start env")
	defer env.Close()
	script := NewScript()
	env.Cl.SetHandler(script.Handler)
	counts := []int{1023, 1024, 1025, 1100, 2049, 3000}
	if c.Thorough() {
		counts = append(counts, 1500, 4097, 5000, 1026, 2048)
	}
	for ci, n := range counts {
		for _, kind := range []string{"pipeline", "mget", "del", "mset"} {
			if !env.P.Alive() {
				c.Violate(Violation{Class: "proxy-died", Shape: "volume", Detail: env.P.PanicLine(), Witness: env.P.OutputTail(2000)})
				return
			}
			if kind != "pipeline" && ci%2 == 1 && !c.Thorough() {
				continue
			}
			node := env.T.Nodes[rng.Intn(3)]
			lo, hi := node.Slots[0][0], node.Slots[0][1]
			perm := rng.Perm(hi - lo + 1)
			tok := newToken("vol")
			var raw []byte
			expect := 1
			if kind == "pipeline" {
				for i := 0; i < n; i++ {
					raw = append(raw, Req("GET", Key(lo+perm[i%len(perm)], fmt.Sprintf("%s.%d", tok, i)))...)
				}
				expect = n
			} else {
				args := []string{strings.ToUpper(kind)}
				for i := 0; i < n; i++ {
					args = append(args, Key(lo+perm[i], fmt.Sprintf("%s.%d", tok, i)))
					if kind == "mset" {
						args = append(args, "v")
					}
				}
				raw = Req(args...)
			}
			cl, err := env.Dial()
			must(err, "dial")
			cl.Send(raw)
			ok := cl.WaitReplies(expect, 15*time.Second)
			// another connection, with requests for the same node among them
			w, err := env.Dial()
			must(err, "dial")
			wk := Key(lo+rng.Intn(hi-lo+1), newToken("volw"))
			w.Send(append(Req("GET", wk), Req("PING")...))
			wok := w.WaitReplies(2, 5*time.Second) && bytes.Equal(w.Snapshot().Replies[0].Val.Raw, BulkReply([]byte("v:"+wk)))
			c.Eval(1)
			c.Distinct(fmt.Sprintf("volume/%s/%d", kind, n))
			shape := fmt.Sprintf("volume/%s/%d-for-one-node", kind, n)
			wit := map[string]interface{}{"kind": kind, "count": n, "node": node.Addr, "replies": cl.NReplies(), "expected_replies": expect}
			switch {
			case !env.P.Alive():
				c.Violate(Violation{Class: "proxy-died", Shape: shape, Detail: env.P.PanicLine(), Witness: wit})
				return
			case !ok:
				c.Violate(Violation{Class: "well-formed-input-not-answered", Shape: shape, Detail: fmt.Sprintf("%d of %d replies after 15 s for a well-formed %s of %d keys/requests, all for one node", cl.NReplies(), expect, kind, n), Witness: wit})
			case !wok:
				c.Violate(Violation{Class: "other-connection-disturbed", Shape: shape, Detail: "after it, another connection's request for the same node is not answered correctly", Witness: wit})
			default:
				c.Count("volume_cases_verified", 1)
			}
			if !ok || !wok {
				cl.Close()
				w.Close()
				must(env.Restart(), "restart proxy")
				env.Cl.SetHandler(script.Handler)
				continue
			}
			cl.Close()
			w.Close()
		}
	}
}

// c12witness runs a checked pipeline on a fresh connection; it returns false
// when the pipeline misbehaved.
func c12witness(c *Check, env *Env, script *Script, rng *rand.Rand) bool {
	g := &pipeGen{env: env, script: script, rng: rng, gated: false, maxMultiKeys: 4, wSingle: 4, wMulti: 2, wPing: 1, wReject: 1}
	p := g.pipeline(12)
	cl, err := env.Dial()
	if err != nil {
		return false
	}
	defer cl.Close()
	// in two or three pieces: the proxy has to park the incomplete head in a buffer (one
	// that a hostile connection may have used a moment ago)
	raw := concatReqs(p)
	cl.SendChunks(raw, []int{1 + rng.Intn(minInt(len(raw)-1, 40)), 1 + rng.Intn(20)}, 2*time.Millisecond)
	if !cl.WaitReplies(len(p), 5*time.Second) {
		for i := 0; i < 20 && env.P.Alive(); i++ {
			time.Sleep(50 * time.Millisecond)
		}
	}
	if !env.P.Alive() {
		return false
	}
	ok := true
	for _, is := range checkPipeline(p, cl.Snapshot()) {
		ok = false
		c.Violate(Violation{Class: "other-connection-disturbed", Shape: is.Class, Detail: "a well-behaved connection running next to hostile ones: " + is.Detail})
	}
	c.Count("witness_pipelines_checked", 1)
	return ok
}

// c12bisect re-sends the batch's inputs one by one to fresh proxies to name
// the input that kills the process (bounded: at most the batch size).
func c12bisect(c *Check, env *Env, batch []Hostile) *Hostile {
	if err := env.Restart(); err != nil {
		return nil
	}
	for i := range batch {
		cl, err := env.Dial()
		if err != nil {
			return nil
		}
		cl.SendChunks(batch[i].Data, batch[i].Chunks, 0)
		env.W.Barrier(3, 3*time.Second)
		time.Sleep(2 * time.Millisecond)
		cl.Close()
		if !env.P.Alive() {
			return &batch[i]
		}
	}
	return nil
}
