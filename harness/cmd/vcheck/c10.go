package main

import (
	"fmt"
	"math/rand"
	"sort"
	"strconv"
	"strings"
	"sync"
	"time"

	"github.com/anishathalye/porcupine"

	. "vcheck/lib"
)

func init() { register("C10", "exploration", runC10) }

// key token layout: o<client>.<seq>[.<n>]
func c10parse(key string) (cid, seq int, ok bool) {
	i := strings.LastIndex(key, "}o")
	if i < 0 {
		return 0, 0, false
	}
	parts := strings.Split(key[i+2:], ".")
	if len(parts) < 2 {
		return 0, 0, false
	}
	cid, e1 := strconv.Atoi(parts[0])
	seq, e2 := strconv.Atoi(parts[1])
	return cid, seq, e1 == nil && e2 == nil
}

func runC10(c *Check, rng *rand.Rand) {
	c.Rule = "oracle 1: on every backend connection the subsequence of commands caused by one client connection must be increasing in the client's sequence numbers (mixed single and split requests, chunked client writes, gated replies, node read pauses that force the proxy to park requests); oracle 2: pipelined unique SET/GET on few keys against a real key-value fake node, history checked with porcupine against a per-key register that also enforces per-connection program order; distinct = (clients, pipeline length, pause pattern) / keys checked"
	c.Assumptions = []string{"server_connections: 1 as the property states; replica reads disabled in the register experiment so that reads are served by the master"}
	c10order(c, rng, "")
	c10order(c, rng, "pw10")
	c10moved(c, rng)
	c10backpressure(c, rng)
	c10register(c, rng)
	c.MinEvals = 10
}

func c10order(c *Check, rng *rand.Rand, password string) {
	env, err := NewEnv(EnvOpt{Masters: 3, Cfg: ProxyCfg{Password: password}})
	must(err, "start env")
	defer env.Close()
	script := NewScript()
	env.Cl.SetHandler(script.Handler)
	episodes := c.Pick(10, 150)
	cidBase := 0
	if password != "" {
		// with a password every fresh backend connection starts with a handshake that is
		// still in progress when the first pipeline is routed: connections are killed
		// between episodes so that this happens again and again
		episodes = c.Pick(12, 150)
		cidBase = 200000
	}
	for ep := 0; ep < episodes; ep++ {
		if !env.P.Alive() {
			c.Violate(Violation{Class: "proxy-died", Shape: "order-workload", Detail: env.P.PanicLine(), Witness: env.P.OutputTail(2000)})
			return
		}
		env.Cl.ForgetRequests()
		if password != "" {
			for _, n := range env.Cl.Nodes {
				n.KillConns()
			}
			env.Barrier()
		}
		nclients := 1 + rng.Intn(8)
		plen := 10 + rng.Intn(c.Pick(300, 3000))
		pause := ep%3 == 1
		slow := ep%3 == 2
		bigvals := pause || slow
		if slow {
			for _, n := range env.Cl.Nodes {
				n.SetSlowRead(2048+rng.Intn(30000), time.Duration(50+rng.Intn(400))*time.Microsecond)
			}
		}
		var wg sync.WaitGroup
		seeds := make([]int64, nclients)
		for i := range seeds {
			seeds[i] = rng.Int63()
		}
		if pause {
			for _, n := range env.Cl.Nodes {
				n.SetPauseRead(true)
			}
		}
		clients := make([]*Client, nclients)
		expect := make([]int, nclients)
		for ci := 0; ci < nclients; ci++ {
			cl, err := env.Dial()
			must(err, "dial")
			clients[ci] = cl
			wg.Add(1)
			go func(ci int) {
				defer wg.Done()
				lr := rand.New(rand.NewSource(seeds[ci]))
				cid := cidBase + ci
				var buf []byte
				for seq := 0; seq < plen; seq++ {
					tok := fmt.Sprintf("o%d.%d", cid, seq)
					switch lr.Intn(6) {
					case 0: // split over the three nodes
						args := []string{"MGET"}
						for k := 0; k < 2+lr.Intn(4); k++ {
							args = append(args, Key(lr.Intn(16384), fmt.Sprintf("%s.%d", tok, k)))
						}
						buf = append(buf, Req(args...)...)
					case 1:
						args := []string{"MSET"}
						for k := 0; k < 2+lr.Intn(3); k++ {
							args = append(args, Key(lr.Intn(16384), fmt.Sprintf("%s.%d", tok, k)), "v")
						}
						buf = append(buf, Req(args...)...)
					case 2:
						val := "v"
						if bigvals {
							val = strings.Repeat("x", 20000+lr.Intn(60000))
						}
						buf = append(buf, Req("SET", Key(lr.Intn(16384), tok), val)...)
					default:
						buf = append(buf, Req("GET", Key(lr.Intn(16384), tok))...)
					}
					if len(buf) > 30000 || lr.Intn(20) == 0 {
						var sizes []int
						if lr.Intn(3) == 0 {
							for rem := len(buf); rem > 0; {
								s := 1 + lr.Intn(500)
								sizes = append(sizes, s)
								rem -= s
							}
						}
						cl.SendChunks(buf, sizes, 0)
						buf = buf[:0]
					}
				}
				cl.Send(buf)
				expect[ci] = plen
			}(ci)
		}
		if pause {
			// let the proxy park requests, then resume the nodes one by one with
			// more client traffic arriving in between
			time.Sleep(time.Duration(20+rng.Intn(80)) * time.Millisecond)
			for _, n := range env.Cl.Nodes {
				n.SetPauseRead(false)
				time.Sleep(time.Duration(rng.Intn(15)) * time.Millisecond)
			}
		}
		wg.Wait()
		if slow {
			for _, n := range env.Cl.Nodes {
				n.SetSlowRead(0, 0)
			}
		}
		cidBase += nclients
		for ci, cl := range clients {
			if !cl.WaitReplies(expect[ci], 30*time.Second) {
				c.Count("order_episode_incomplete_replies(C01/C09 subject)", 1)
			}
			cl.Close()
		}
		// oracle 1: per node (one backend connection is configured, so across whatever
		// connections the proxy used) the commands of one client arrive in its order
		nreq := 0
		for _, n := range env.Cl.Nodes {
			var all []*BReq
			for _, bc := range n.Conns() {
				for _, r := range bc.Requests() {
					if _, ok := CmdTable[r.Cmd]; ok {
						all = append(all, r)
					}
				}
			}
			sort.Slice(all, func(i, j int) bool { return all[i].Clock < all[j].Clock })
			last := map[int]*BReq{}
			lastSeq := map[int]int{}
			for _, r := range all {
				cid, seq, ok := c10parse(FirstKey(r))
				if !ok {
					continue
				}
				nreq++
				if prev, ok := lastSeq[cid]; ok && seq < prev {
					c.Violate(Violation{Class: "per-node-order-inverted", Shape: fmt.Sprintf("pause=%v/slow=%v/password=%v", pause, slow, password != ""),
						Detail:  fmt.Sprintf("node %d: request #%d of client %d (connection %d) arrived after its request #%d (connection %d)", n.Index, seq, cid, r.Conn.ID, prev, last[cid].Conn.ID),
						Witness: map[string]interface{}{"clients": nclients, "pipeline_len": plen, "node_paused_reading": pause, "command": Q(r.Raw[:minInt(len(r.Raw), 200)])}})
					break
				}
				lastSeq[cid] = seq
				last[cid] = r
			}
		}
		if mf := env.Cl.MalformedSeen(); len(mf) > 0 {
			c.Violate(Violation{Class: "request-stream-interleaved-at-node", Shape: fmt.Sprintf("pause=%v/slow=%v", pause, slow),
				Detail:  fmt.Sprintf("node %d connection %d received a corrupt request stream (%s): bytes of different requests were interleaved", mf[0].Node, mf[0].Conn, mf[0].Err),
				Witness: map[string]interface{}{"clients": nclients, "pipeline_len": plen, "context": Q(mf[0].Context)}})
			return
		}
		c.Eval(1)
		c.Count("backend_commands_order_checked", int64(nreq))
		c.Distinct(fmt.Sprintf("order/%d/%d/%v/%v", nclients, plen, pause, slow))
		if ep < 2 {
			c.Sample(map[string]interface{}{"oracle": "per-node order", "clients": nclients, "pipeline_len": plen, "node_read_pause": pause, "node_slow_read": slow, "backend_commands": nreq})
		}
	}
}

// c10backpressure: one node stops reading until the proxy has parked many MB
// for it, then drains slowly while the same clients keep sending small
// requests one write() at a time (many write signals while data is parked).
func c10backpressure(c *Check, rng *rand.Rand) {
	env, err := NewEnv(EnvOpt{Masters: 3})
	must(err, "start env")
	defer env.Close()
	env.Cl.SetHandler(func(r *BReq) Action { return Action{Reply: StatusReply("OK")} })
	for ep := 0; ep < c.Pick(9, 40); ep++ {
		if !env.P.Alive() {
			c.Violate(Violation{Class: "proxy-died", Shape: "backpressure", Detail: env.P.PanicLine(), Witness: env.P.OutputTail(2000)})
			return
		}
		env.Cl.ForgetRequests() // the drain test and the oracle below look at this episode only
		victim := env.Cl.Nodes[rng.Intn(3)]
		slots := env.T.Nodes[victim.Index].Slots[0]
		victim.SetPauseRead(true)
		nclients := 2 + rng.Intn(3)
		clients := make([]*Client, nclients)
		sentN := make([]int, nclients)
		var wg sync.WaitGroup
		base := 100000 + ep*100
		for ci := range clients {
			cl, err := env.Dial()
			must(err, "dial")
			clients[ci] = cl
		}
		// wave 1: big values, parked by the proxy
		for ci, cl := range clients {
			wg.Add(1)
			go func(ci int, cl *Client) {
				defer wg.Done()
				val := strings.Repeat("y", 60000)
				for seq := 0; seq < 100; seq++ {
					slot := slots[0] + (ci*131+seq)%(slots[1]-slots[0]+1)
					cl.Send(Req("SET", Key(slot, fmt.Sprintf("o%d.%d", base+ci, seq)), val))
					sentN[ci]++
				}
			}(ci, cl)
		}
		wg.Wait()
		env.Barrier()
		time.Sleep(100 * time.Millisecond)
		lost := ep%2 == 1
		if lost {
			// the stalled connection is lost with the parked requests still unsent; the
			// connection the proxy dials next stalls as well, so that it has to park again
			// (in buffers that were in use a moment ago), and is then drained slowly
			victim.KillConns()
			env.Barrier()
			for ci, cl := range clients {
				wg.Add(1)
				go func(ci int, cl *Client) {
					defer wg.Done()
					val := strings.Repeat("z", 60000)
					for seq := 100; seq < 200; seq++ {
						slot := slots[0] + (ci*131+seq)%(slots[1]-slots[0]+1)
						cl.Send(Req("SET", Key(slot, fmt.Sprintf("o%d.%d", base+ci, seq)), val))
						sentN[ci]++
					}
				}(ci, cl)
			}
			wg.Wait()
			env.Barrier()
			time.Sleep(50 * time.Millisecond)
		}
		// wave 2 while the node drains slowly
		victim.SetSlowRead(8192+rng.Intn(32768), time.Duration(100+rng.Intn(300))*time.Microsecond)
		victim.SetPauseRead(false)
		for ci, cl := range clients {
			wg.Add(1)
			go func(ci int, cl *Client) {
				defer wg.Done()
				// keep sending, one small request per write, until the node has drained the
				// whole parked backlog (the end of the drain is when a short backlog and an
				// emptying ring coexist) and a little beyond
				drained := func() bool {
					n := 0
					for _, bc := range victim.Conns() {
						n += len(bc.Requests())
					}
					if lost {
						return n >= nclients*100
					}
					return n >= nclients*100
				}
				extra := 0
				first := 100
				if lost {
					first = 200
				}
				for seq := first; seq < 6000 && extra < 300; seq++ {
					slot := slots[0] + (ci*131+seq)%(slots[1]-slots[0]+1)
					cl.Send(Req("GET", Key(slot, fmt.Sprintf("o%d.%d", base+ci, seq))))
					sentN[ci]++
					if seq%5 == 0 {
						time.Sleep(200 * time.Microsecond)
						if drained() {
							extra += 5
						}
					}
				}
			}(ci, cl)
		}
		wg.Wait()
		victim.SetSlowRead(0, 0)
		for ci, cl := range clients {
			if !cl.WaitReplies(sentN[ci], 30*time.Second) {
				c.Count("backpressure_episode_incomplete_replies", 1)
			}
			cl.Close()
		}
		if mf := env.Cl.MalformedSeen(); len(mf) > 0 {
			c.Violate(Violation{Class: "request-stream-interleaved-at-node", Shape: "backpressure",
				Detail:  fmt.Sprintf("node %d connection %d received a corrupt request stream (%s): a later request was written into the middle of parked data", mf[0].Node, mf[0].Conn, mf[0].Err),
				Witness: map[string]interface{}{"clients": nclients, "context": Q(mf[0].Context)}})
			return
		}
		type ck struct{ conn, cid int }
		last := map[ck]int{}
		nreq := 0
		for _, bc := range victim.Conns() {
			for _, r := range bc.Requests() {
				cid, seq, ok := c10parse(FirstKey(r))
				if !ok || cid < base || cid >= base+100 {
					continue
				}
				nreq++
				k := ck{bc.ID, cid}
				if prev, ok := last[k]; ok && seq < prev {
					c.Violate(Violation{Class: "per-node-order-inverted", Shape: "backpressure",
						Detail:  fmt.Sprintf("node %d connection %d: request #%d of client %d arrived after its request #%d (requests parked behind a stalled node were overtaken)", victim.Index, bc.ID, seq, cid, prev),
						Witness: map[string]interface{}{"clients": nclients}})
					break
				}
				last[k] = seq
			}
		}
		c.Eval(1)
		c.Count("backend_commands_order_checked", int64(nreq))
		c.Count("backpressure_episodes", 1)
		c.Distinct(fmt.Sprintf("backpressure/%d/%d", nclients, ep))
	}
}

// c10moved: pipelined requests of one client for a slot that has moved: all of them
// are answered MOVED by the old owner and re-sent to the new one, where they must
// arrive in the order the client sent them.
func c10moved(c *Check, rng *rand.Rand) {
	env, err := NewEnv(EnvOpt{Masters: 3})
	must(err, "start env")
	defer env.Close()
	var mu sync.Mutex
	moved := map[int]*Node{} // slot -> new owner
	env.Cl.SetHandler(func(r *BReq) Action {
		slot := KeySlot([]byte(FirstKey(r)))
		mu.Lock()
		to := moved[slot]
		mu.Unlock()
		if to != nil && r.Node != to {
			return Action{Reply: ErrReply(fmt.Sprintf("MOVED %d %s", slot, to.Addr))}
		}
		return Action{Reply: StatusReply("OK")}
	})
	base := 500000
	for ep := 0; ep < c.Pick(25, 400); ep++ {
		if !env.P.Alive() {
			c.Violate(Violation{Class: "proxy-died", Shape: "moved-slot-pipeline", Detail: env.P.PanicLine(), Witness: env.P.OutputTail(2000)})
			return
		}
		env.Cl.ForgetRequests()
		slot := rng.Intn(16384)
		owner := env.T.Owner(slot).Node
		var target *Node
		for _, tn := range env.T.Nodes {
			if tn.Node != owner {
				target = tn.Node
			}
		}
		mu.Lock()
		moved[slot] = target
		mu.Unlock()
		cid := base + ep
		cl, err := env.Dial()
		must(err, "dial")
		n := 2 + rng.Intn(12)
		var batch []byte
		for seq := 0; seq < n; seq++ {
			key := Key(slot, fmt.Sprintf("o%d.%d", cid, seq))
			if seq%2 == 0 {
				batch = append(batch, Req("SET", key, "v")...)
			} else {
				batch = append(batch, Req("GET", key)...)
			}
		}
		cl.Send(batch)
		if !cl.WaitReplies(n, 10*time.Second) {
			c.Count("moved_episode_incomplete_replies(C13 subject)", 1)
		}
		cl.Close()
		last := -1
		nreq := 0
		for _, bc := range target.Conns() {
			for _, r := range bc.Requests() {
				id, seq, ok := c10parse(FirstKey(r))
				if !ok || id != cid {
					continue
				}
				nreq++
				if seq < last {
					c.Violate(Violation{Class: "per-node-order-inverted", Shape: "requests-redirected-by-MOVED",
						Detail:  fmt.Sprintf("slot moved to node %d: request #%d of the client arrived there after its request #%d", target.Index, seq, last),
						Witness: map[string]interface{}{"pipeline_len": n, "slot": slot}})
					break
				}
				last = seq
			}
		}
		mu.Lock()
		delete(moved, slot)
		mu.Unlock()
		c.Eval(1)
		c.Count("backend_commands_order_checked", int64(nreq))
		c.Distinct(fmt.Sprintf("moved/%d", n))
	}
}

// ---- oracle 2: register history ----

type regIn struct {
	Client int
	Seq    int
	Write  bool
	Key    string
	Arg    string
	Ord    int // position among this client's checked operations on this key
}

type regState struct {
	Val  string
	Last [4]int16 // per client: number of its operations on this key applied so far
}

var regModel = porcupine.Model{
	Partition: func(h []porcupine.Operation) [][]porcupine.Operation {
		m := map[string][]porcupine.Operation{}
		var keys []string
		for _, op := range h {
			k := op.Input.(regIn).Key
			if _, ok := m[k]; !ok {
				keys = append(keys, k)
			}
			m[k] = append(m[k], op)
		}
		sort.Strings(keys)
		out := make([][]porcupine.Operation, 0, len(keys))
		for _, k := range keys {
			out = append(out, m[k])
		}
		return out
	},
	Init: func() interface{} { return regState{} },
	Step: func(st, in, out interface{}) (bool, interface{}) {
		s := st.(regState)
		i := in.(regIn)
		// per-connection program order: exactly the client's next operation on this key
		// (equivalent to "never an earlier one after a later one" because every operation
		// has to be placed, but it prunes the dead ends at once instead of at the end of
		// an exponential search)
		if int16(i.Ord) != s.Last[i.Client] {
			return false, s
		}
		ns := s
		ns.Last[i.Client] = int16(i.Ord) + 1
		if i.Write {
			ns.Val = i.Arg
			return true, ns
		}
		return out.(string) == s.Val, ns
	},
	Equal: func(a, b interface{}) bool { return a.(regState) == b.(regState) },
	DescribeOperation: func(in, out interface{}) string {
		i := in.(regIn)
		if i.Write {
			return fmt.Sprintf("c%d#%d set(%s,%s)", i.Client, i.Seq, i.Key, i.Arg)
		}
		return fmt.Sprintf("c%d#%d get(%s)->%v", i.Client, i.Seq, i.Key, out)
	},
}

func c10register(c *Check, rng *rand.Rand) {
	env, err := NewEnv(EnvOpt{Masters: 3, Cfg: ProxyCfg{DisableSlave: true}})
	must(err, "start env")
	defer env.Close()
	var kvmu sync.Mutex
	kv := map[string]string{}
	env.Cl.SetHandler(func(r *BReq) Action {
		kvmu.Lock()
		defer kvmu.Unlock()
		switch r.Cmd {
		case "set":
			kv[r.Arg(1)] = r.Arg(2)
			return Action{Reply: StatusReply("OK")}
		case "get":
			if v, ok := kv[r.Arg(1)]; ok {
				return Action{Reply: BulkReply([]byte(v))}
			}
			return Action{Reply: NullBulk()}
		}
		return Action{Reply: ErrReply("ERR unsupported in this experiment")}
	})
	rounds := c.Pick(15, 400)
	for rd := 0; rd < rounds; rd++ {
		if !env.P.Alive() {
			c.Violate(Violation{Class: "proxy-died", Shape: "register-workload", Detail: env.P.PanicLine()})
			return
		}
		nclients := 2 + rng.Intn(3)
		nkeys := 1 + rng.Intn(3)
		keys := make([]string, nkeys)
		for i := range keys {
			keys[i] = Key(rng.Intn(16384), fmt.Sprintf("reg%d.%d", rd, i))
		}
		opsPer := 4 + rng.Intn(c.Pick(9, 25))
		pause := rd%3 == 2
		type sent struct {
			in   regIn
			call int64
		}
		all := make([][]sent, nclients)
		clients := make([]*Client, nclients)
		seeds := make([]int64, nclients)
		for i := range seeds {
			seeds[i] = rng.Int63()
		}
		if pause {
			for _, n := range env.Cl.Nodes {
				n.SetPauseRead(true)
			}
		}
		var wg sync.WaitGroup
		for ci := 0; ci < nclients; ci++ {
			cl, err := env.Dial()
			must(err, "dial")
			clients[ci] = cl
			wg.Add(1)
			go func(ci int) {
				defer wg.Done()
				lr := rand.New(rand.NewSource(seeds[ci]))
				for seq := 0; seq < opsPer; seq++ {
					k := keys[lr.Intn(nkeys)]
					in := regIn{Client: ci, Seq: seq, Key: k}
					var raw []byte
					if lr.Intn(2) == 0 {
						in.Write = true
						in.Arg = fmt.Sprintf("w%d.%d.%d", rd, ci, seq)
						val := in.Arg
						raw = Req("SET", k, val)
					} else {
						raw = Req("GET", k)
					}
					call := Tick()
					all[ci] = append(all[ci], sent{in, call})
					// several requests per write call now and then (pipelining)
					cl.Send(raw)
					if lr.Intn(4) == 0 {
						time.Sleep(time.Duration(lr.Intn(300)) * time.Microsecond)
					}
				}
			}(ci)
		}
		if pause {
			time.Sleep(time.Duration(5+rng.Intn(30)) * time.Millisecond)
			for _, n := range env.Cl.Nodes {
				n.SetPauseRead(false)
			}
		}
		wg.Wait()
		var ops []porcupine.Operation
		complete := true
		for ci, cl := range clients {
			if !cl.WaitReplies(opsPer, 20*time.Second) {
				complete = false
			}
			s := cl.Snapshot()
			ord := map[string]int{}
			for i, sn := range all[ci] {
				if i >= len(s.Replies) && !sn.in.Write {
					continue // an unanswered read constrains nothing
				}
				sn.in.Ord = ord[sn.in.Key]
				ord[sn.in.Key]++
				op := porcupine.Operation{ClientId: ci, Input: sn.in, Call: sn.call}
				if i < len(s.Replies) {
					v := s.Replies[i].Val
					op.Return = s.Replies[i].Clock
					if sn.in.Write {
						op.Output = "OK"
					} else if v.Null {
						op.Output = ""
					} else {
						op.Output = string(v.Str)
					}
				} else {
					// unanswered: may take effect any time until the end of the history
					op.Return = Tick() + 1<<40
					op.Output = ""
				}
				ops = append(ops, op)
			}
			cl.Close()
		}
		if !complete {
			c.Count("register_rounds_with_unanswered_ops(C01/C09 subject)", 1)
		}
		res, info := porcupine.CheckOperationsVerbose(regModel, ops, 30*time.Second)
		c.Eval(1)
		c.Count("register_ops_checked", int64(len(ops)))
		c.Distinct(fmt.Sprintf("register/%d/%d/%d/%v", nclients, nkeys, opsPer, pause))
		switch res {
		case porcupine.Unknown:
			c.Inconclusive("porcupine timed out on a history of %d operations", len(ops))
		case porcupine.Illegal:
			var hist []string
			for _, op := range ops {
				hist = append(hist, fmt.Sprintf("[%d,%d] %s", op.Call, op.Return, regModel.DescribeOperation(op.Input, op.Output)))
			}
			_ = info
			c.Violate(Violation{Class: "history-not-explained-by-program-order", Shape: fmt.Sprintf("pause=%v", pause),
				Detail:  fmt.Sprintf("no linearisation of the %d-operation history respects real time and per-connection order (e.g. a pipelined GET after SET on the same key did not observe it)", len(ops)),
				Witness: map[string]interface{}{"history": hist, "node_read_pause": pause}})
		}
		if rd == 0 {
			c.Sample(map[string]interface{}{"oracle": "porcupine register", "clients": nclients, "keys": nkeys, "ops_per_client": opsPer, "result": fmt.Sprint(res)})
		}
	}
}
