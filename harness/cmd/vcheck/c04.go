package main

import (
	"fmt"
	"math/rand"
	"strings"
	"sync"
	"time"

	. "vcheck/lib"
)

func init() { register("C04", "exploration", runC04) }

type c04cfg struct {
	name         string
	masters      int
	replicas     int
	ranges       int
	password     string
	disableSlave bool
	swap         bool
}

func runC04(c *Check, rng *rand.Rand) {
	c.Rule = "every command of the supported table x keys covering all 16384 slots (hash-tagged and plain) on random multi-range topologies; each data command logged by a fake node is judged by the reference slot function, the topology's owner set and the command's role class; every backend connection's command sequence is judged for AUTH / READONLY before the first data command; a live master<->replica swap re-checks READONLY; a live range cut (head stays, middle loses its owner, tail moves; every node stays) after which nothing for the unowned middle may reach a node; keys include bytes >= 0x80, keys longer than 256 bytes and hash tags closing beyond byte 256; distinct = (config, command, slot)"
	c.Assumptions = []string{
		"role classes per Redis: writes (incl. SORT, PFCOUNT), cursor scans and EVAL/EVALSHA must reach the master; reads may reach master or replica; with disable_slave everything must reach the master",
		"probe connections (INFO/PING/CLUSTER NODES dials) are only checked for AUTH, which the fake node enforces itself (NOAUTH)",
	}
	cfgs := []c04cfg{
		{"5m2r-ranges", 5, 2, 23, "", false, true},
		{"4m1r-password-disable_slave", 4, 1, 9, "s3cret", true, false},
	}
	if c.Thorough() {
		for i := 0; i < 10; i++ {
			cfgs = append(cfgs, c04cfg{fmt.Sprintf("rand%d", i), 3 + rng.Intn(10), rng.Intn(4), 3 + rng.Intn(60), []string{"", "pw"}[rng.Intn(2)], rng.Intn(3) == 0, rng.Intn(2) == 0})
		}
	}
	var wg sync.WaitGroup
	sem := make(chan struct{}, 4)
	for i, cf := range cfgs {
		wg.Add(1)
		go func(i int, cf c04cfg) {
			defer wg.Done()
			sem <- struct{}{}
			defer func() { <-sem }()
			defer func() {
				if r := recover(); r != nil {
					if ie, ok := r.(infraErr); ok {
						c.Inconclusive("[%s] %s", cf.name, string(ie))
						return
					}
					panic(r)
				}
			}()
			c04config(c, c.Seed*100+int64(i), cf)
		}(i, cf)
	}
	wg.Wait()
	c04shrink(c, c.Seed*100+77)
	c.MinEvals = 10000
}

func c04config(c *Check, seed int64, cf c04cfg) {
	rng := rand.New(rand.NewSource(seed))
	env, err := NewEnv(EnvOpt{Masters: cf.masters, Replicas: cf.replicas,
		Cfg: ProxyCfg{Password: cf.password, DisableSlave: cf.disableSlave, Env: c04hooks(cf)},
		Topo: func(cl *Cluster) *Topo {
			t := RandomTopo(cl, cf.masters, cf.replicas, cf.ranges, rng.Intn)
			if cf.replicas > 0 && cf.masters > 2 {
				// replica counts differ per master: the second master has none
				var keep []*TNode
				for _, tn := range t.Nodes {
					if !tn.Master && tn.MasterID == t.Nodes[1].ID {
						continue
					}
					keep = append(keep, tn)
				}
				t.Nodes = keep
			}
			t.Order = rng.Perm(len(t.Nodes))
			return t
		}})
	must(err, "start env "+cf.name)
	defer env.Close()
	env.Cl.SetHandler(func(r *BReq) Action { return Action{Reply: ValueReply(r)} })

	c04workload(c, rng, env, cf, "initial", nil)
	c04judge(c, env, cf, env.T, "initial")
	if cf.swap && cf.replicas > 0 && !cf.disableSlave {
		// live failover: master 0 and its first replica swap roles
		m := env.T.Nodes[0]
		var rep *TNode
		for _, tn := range env.T.Nodes {
			if !tn.Master && tn.MasterID == m.ID {
				rep = tn
				break
			}
		}
		nt := &Topo{}
		for _, tn := range env.T.Nodes {
			cp := *tn
			switch {
			case tn == m:
				cp.Master = false
				cp.MasterID = rep.ID
				cp.Slots = nil
			case tn == rep:
				cp.Master = true
				cp.MasterID = ""
				cp.Slots = m.Slots
			case !tn.Master && tn.MasterID == m.ID:
				cp.MasterID = rep.ID
			}
			nt.Nodes = append(nt.Nodes, &cp)
		}
		nt.Install(env.Cl)
		// wait until a write for one of the moved slots reaches the new master
		slot := m.Slots[0][0]
		adopted := false
		cl, err := env.Dial()
		must(err, "dial")
		got := 0
		for dl := time.Now().Add(15 * time.Second); time.Now().Before(dl); {
			tok := newToken("adopt")
			before := env.Cl.LogLen()
			cl.Send(Req("SET", Key(slot, tok), "v"))
			got++
			if !cl.WaitReplies(got, 5*time.Second) {
				break
			}
			for _, r := range env.Cl.Log()[before:] {
				if r.Node == rep.Node && r.Cmd == "set" {
					adopted = true
				}
			}
			if adopted {
				break
			}
			time.Sleep(200 * time.Millisecond)
		}
		cl.Close()
		if !adopted {
			c.Count("swap_not_adopted_within_15s(C14 subject)", 1)
			return
		}
		time.Sleep(300 * time.Millisecond)
		env.Cl.ResetLog()
		c04workload(c, rng, env, cf, "after-swap", nil)
		c04judge(c, env, cf, nt, "after-swap")
		if !cf.disableSlave {
			c04failedMaster(c, rng, env, cf, nt)
		}
		return
	}
	if !cf.disableSlave && cf.replicas > 0 {
		c04failedMaster(c, rng, env, cf, env.T)
	}
}

// c04failedMaster: a master is flagged as failed while its replica is still listed
// as its slave (not yet promoted): nothing may be routed to either of them.
func c04failedMaster(c *Check, rng *rand.Rand, env *Env, cf c04cfg, cur *Topo) {
	var victim *TNode
	for _, tn := range cur.Nodes {
		if tn.Master && len(cur.Replicas(tn.ID)) > 0 {
			victim = tn
		}
	}
	nmasters := 0
	for _, tn := range cur.Nodes {
		if tn.Master {
			nmasters++
		}
	}
	if victim == nil || nmasters < 4 {
		return
	}
	nt := &Topo{Order: cur.Order}
	jt := &Topo{} // what the judge considers usable
	for _, tn := range cur.Nodes {
		cp := *tn
		if tn == victim {
			cp.Flags = "fail"
		}
		nt.Nodes = append(nt.Nodes, &cp)
		if tn != victim && !(!tn.Master && tn.MasterID == victim.ID) {
			jt.Nodes = append(jt.Nodes, &cp)
		}
	}
	nt.Install(env.Cl)
	slot := victim.Slots[0][0]
	adopted := false
	for dl := time.Now().Add(15 * time.Second); time.Now().Before(dl) && !adopted; {
		pc, err := env.Dial()
		must(err, "dial")
		pc.Send(Req("SET", Key(slot, newToken("fm")), "v"))
		if pc.WaitReplies(1, 2*time.Second) && pc.Snapshot().Replies[0].Val.Kind == '-' {
			adopted = true
		}
		pc.Close()
		time.Sleep(200 * time.Millisecond)
	}
	if !adopted {
		c.Count("failed_master_not_adopted_within_15s(C14 subject)", 1)
		return
	}
	time.Sleep(300 * time.Millisecond)
	env.Cl.ResetLog()
	inVictim := func(s int) bool {
		for _, r := range victim.Slots {
			if s >= r[0] && s <= r[1] {
				return true
			}
		}
		return false
	}
	c04workload(c, rng, env, cf, "master-failed", inVictim)
	c04judge(c, env, cf, jt, "master-failed")
}

func c04workload(c *Check, rng *rand.Rand, env *Env, cf c04cfg, phase string, skip func(int) bool) {
	// build the request list: two commands per slot + every command on 8 slots
	type item struct{ raw []byte }
	var items [][]byte
	forwarded := []string{}
	for _, n := range cmdNames {
		if CmdTable[n].Role != RoleLocal {
			forwarded = append(forwarded, n)
		}
	}
	mk := func(name string, slot int) []byte {
		for skip != nil && skip(slot) {
			slot = rng.Intn(16384)
		}
		var key []byte
		if rng.Intn(10) == 0 {
			// keys whose slot only the reference knows: bytes >= 0x80 (text and binary),
			// long keys, hash tags that close beyond byte 256
			tok := newToken("k")
			switch rng.Intn(5) {
			case 0:
				key = []byte([]string{"ключ:", "鍵-", "clé_", "🔑"}[rng.Intn(4)] + tok)
			case 1:
				key = append(randBytesHi(rng, 1+rng.Intn(24)), tok...)
			case 2:
				key = []byte(strings.Repeat("L", 257+rng.Intn(1500)) + tok)
			case 3:
				key = []byte(strings.Repeat("p", 200+rng.Intn(200)) + "{" + SlotTag(slot) + "}" + tok)
			default:
				key = []byte("{" + strings.Repeat("t", 260+rng.Intn(100)) + tok + "}" + "tail")
			}
		} else if rng.Intn(8) == 0 {
			// brace-hostile shapes (the slot is whatever the reference says)
			tok := newToken("k")
			shapes := []string{"{}" + tok, "obj{}:" + tok, "a{}b{" + SlotTag(slot) + "}" + tok, "}{" + SlotTag(slot) + "}" + tok, "{" + tok, tok + "}", "{{" + SlotTag(slot) + "}}" + tok,
				"{" + SlotTag(slot) + "}{" + tok + "}", "x}y{" + SlotTag(slot) + "}" + tok, "{}{" + SlotTag(slot) + "}" + tok}
			key = []byte(shapes[rng.Intn(len(shapes))])
		} else if rng.Intn(3) == 0 {
			// plain key landing in slot: search
			for tries := 0; ; tries++ {
				k := []byte(fmt.Sprintf("plain:%d:%d", slot, rng.Intn(1<<30)))
				if tries > 40 {
					key = []byte(Key(slot, newToken("k")))
					break
				}
				if KeySlot(k) == slot {
					key = k
					break
				}
			}
		} else {
			key = []byte(Key(slot, newToken("k")))
		}
		ci := CmdTable[name]
		if ci.Multi != "" {
			// all keys in the same slot here (cross-slot splits are C06/C07's subject)
			args := [][]byte{randCase(rng, name), key}
			if name == "mset" {
				args = append(args, []byte("v"))
			}
			if rng.Intn(2) == 0 {
				args = append(args, []byte(Key(slot, newToken("k"))))
				if name == "mset" {
					args = append(args, []byte("v2"))
				}
			}
			return EncodeReq(args...)
		}
		return EncodeReq(genCommand(rng, name, key, 0)...)
	}
	nslots := 16384
	if phase != "initial" {
		nslots = 4096
	}
	for s := 0; s < nslots; s++ {
		slot := s
		if phase != "initial" {
			slot = rng.Intn(16384)
		}
		items = append(items, mk(forwarded[rng.Intn(len(forwarded))], slot))
		items = append(items, mk(forwarded[(s*7)%len(forwarded)], slot))
	}
	for _, n := range forwarded {
		for k := 0; k < 8; k++ {
			items = append(items, mk(n, rng.Intn(16384)))
		}
	}
	// range boundaries
	for _, tn := range env.T.Nodes {
		for _, sr := range tn.Slots {
			for _, s := range []int{sr[0], sr[1]} {
				items = append(items, mk("get", s), mk("set", s))
			}
		}
	}
	rng.Shuffle(len(items), func(i, j int) { items[i], items[j] = items[j], items[i] })
	nclients := 8
	var wg sync.WaitGroup
	per := (len(items) + nclients - 1) / nclients
	for w := 0; w < nclients; w++ {
		lo, hi := w*per, (w+1)*per
		if hi > len(items) {
			hi = len(items)
		}
		if lo >= hi {
			continue
		}
		wg.Add(1)
		go func(part [][]byte) {
			defer wg.Done()
			cl, err := env.Dial()
			if err != nil {
				c.Inconclusive("dial: %v", err)
				return
			}
			defer cl.Close()
			sent := 0
			for i := 0; i < len(part); i += 100 {
				j := i + 100
				if j > len(part) {
					j = len(part)
				}
				var b []byte
				for _, r := range part[i:j] {
					b = append(b, r...)
				}
				if (i/100)%4 == 3 {
					// cut into small pieces: requests (and keys) span several reads
					var sizes []int
					for rem, k := len(b), 0; rem > 0; k++ {
						sz := 1 + (k*7+i)%23
						sizes = append(sizes, sz)
						rem -= sz
					}
					cl.SendChunks(b, sizes, 0)
				} else {
					cl.Send(b)
				}
				sent += j - i
				if !cl.WaitReplies(sent, 20*time.Second) {
					c.Violate(Violation{Class: "no-reply-during-routing-workload", Shape: phase, Detail: fmt.Sprintf("only %d of %d replies (proxy alive=%v)", cl.NReplies(), sent, env.P.Alive()),
						Witness: map[string]interface{}{"config": cf.name, "stderr": env.P.OutputTail(1500)}})
					return
				}
			}
		}(items[lo:hi])
	}
	wg.Wait()
	c.Eval(len(items))
}

func c04judge(c *Check, env *Env, cf c04cfg, topo *Topo, phase string) {
	idOf := map[*Node]*TNode{}
	for _, tn := range topo.Nodes {
		idOf[tn.Node] = tn
	}
	slotsSeen := map[int]bool{}
	cmdsSeen := map[string]bool{}
	// per backend connection: position of the first READONLY and of the first valid AUTH
	type hs struct{ ro, auth int }
	hsOf := map[*BConn]hs{}
	handshake := func(bc *BConn) hs {
		if h, ok := hsOf[bc]; ok {
			return h
		}
		h := hs{ro: 1 << 30, auth: 1 << 30}
		for _, q := range bc.Requests() {
			if q.Cmd == "readonly" && q.Seq < h.ro {
				h.ro = q.Seq
			}
			if q.Cmd == "auth" && q.Arg(1) == cf.password && q.Seq < h.auth {
				h.auth = q.Seq
			}
		}
		hsOf[bc] = h
		return h
	}
	for _, r := range env.Cl.Log() {
		ci, ok := CmdTable[r.Cmd]
		if !ok {
			c.Violate(Violation{Class: "unknown-command-at-backend", Shape: r.Cmd, Detail: "backend received " + Q(r.Raw), Witness: map[string]interface{}{"config": cf.name}})
			continue
		}
		key := []byte(FirstKey(r))
		slot := KeySlot(key)
		owner := topo.Owner(slot)
		at := idOf[r.Node]
		wit := map[string]interface{}{"config": cf.name, "phase": phase, "request": Q(r.Raw), "slot": slot, "arrived_at": r.Node.Addr, "topology": topo.Text(nil)}
		slotsSeen[slot] = true
		cmdsSeen[r.Cmd] = true
		c.Distinct(fmt.Sprintf("%s|%s|%d", cf.name, r.Cmd, slot))
		if owner == nil || at == nil {
			c.Violate(Violation{Class: "routed-to-non-owner", Shape: roleName(ci.Role), Detail: fmt.Sprintf("slot %d has no owner / node unknown but %s arrived at %s", slot, r.Cmd, r.Node.Addr), Witness: wit})
			continue
		}
		inSet := at == owner || (!at.Master && at.MasterID == owner.ID)
		if !inSet {
			c.Violate(Violation{Class: "routed-to-non-owner", Shape: roleName(ci.Role) + "/" + phase, Detail: fmt.Sprintf("%s for slot %d (owner %s) arrived at %s", r.Cmd, slot, owner.Addr, at.Addr), Witness: wit})
			continue
		}
		if at != owner {
			if ci.Role != RoleRead {
				c.Violate(Violation{Class: "non-read-at-replica", Shape: roleName(ci.Role) + ":" + r.Cmd, Detail: fmt.Sprintf("%s (%s) for slot %d arrived at replica %s", r.Cmd, roleName(ci.Role), slot, at.Addr), Witness: wit})
				continue
			}
			if cf.disableSlave {
				c.Violate(Violation{Class: "replica-used-although-disabled", Shape: r.Cmd, Detail: fmt.Sprintf("%s arrived at replica %s with disable_slave on", r.Cmd, at.Addr), Witness: wit})
				continue
			}
			c.Count("reads_at_replicas", 1)
			// READONLY before this request on its connection
			ro := handshake(r.Conn).ro < r.Seq
			if !ro {
				var hist []string
				for i, q := range r.Conn.Requests() {
					if i > 12 {
						break
					}
					hist = append(hist, q.Cmd)
				}
				wit["connection_history"] = hist
				c.Violate(Violation{Class: "replica-connection-without-READONLY", Shape: phase, Detail: fmt.Sprintf("%s served on a connection to replica %s that never sent READONLY", r.Cmd, at.Addr), Witness: wit})
				continue
			}
		} else {
			c.Count("commands_at_masters", 1)
		}
		if cf.password != "" {
			au := handshake(r.Conn).auth < r.Seq
			if !au {
				c.Violate(Violation{Class: "data-before-AUTH", Shape: phase, Detail: "data command on a connection that did not AUTH first", Witness: wit})
				continue
			}
			c.Count("auth_checked", 1)
		}
		c.Count("routed_ok", 1)
	}
	c.Count("slots_seen_"+cf.name+"_"+phase, int64(len(slotsSeen)))
	c.Count("commands_seen_"+cf.name+"_"+phase, int64(len(cmdsSeen)))
	c.Sample(map[string]interface{}{"config": cf.name, "phase": phase, "topology": topo.Text(nil), "slots_seen": len(slotsSeen), "commands_seen": len(cmdsSeen)})
	if !env.P.Alive() {
		c.Violate(Violation{Class: "proxy-died", Shape: phase, Detail: env.P.PanicLine(), Witness: env.P.OutputTail(2000)})
	}
}

// randBytesHi returns n random bytes >= 0x80 (no CR/LF/space issues, never ASCII).
func randBytesHi(rng *rand.Rand, n int) []byte {
	b := make([]byte, n)
	for i := range b {
		b[i] = byte(0x80 + rng.Intn(0x80))
	}
	return b
}

// c04shrink: a live topology change in which every node stays but a stretch of slots
// loses its owner (a range is cut: its head stays, its middle is unclaimed, its tail
// moves to another master). The moved tail is the adoption marker: once a write for
// it reaches the new master the proxy routes by the new description, and from then on
// nothing for the unclaimed stretch may reach any node.
func c04shrink(c *Check, seed int64) {
	rng := rand.New(rand.NewSource(seed))
	env, err := NewEnv(EnvOpt{Masters: 4, Replicas: 1})
	must(err, "start env shrink")
	defer env.Close()
	env.Cl.SetHandler(func(r *BReq) Action { return Action{Reply: ValueReply(r)} })
	for round := 0; round < 2; round++ {
		cur := env.T
		x := cur.Nodes[rng.Intn(4)]
		var y *TNode
		for _, tn := range cur.Nodes[:4] {
			if tn != x {
				y = tn
			}
		}
		// the widest range of x
		ri := 0
		for i, r := range x.Slots {
			if r[1]-r[0] > x.Slots[ri][1]-x.Slots[ri][0] {
				ri = i
			}
		}
		a, b := x.Slots[ri][0], x.Slots[ri][1]
		if b-a < 100 {
			return
		}
		m := a + (b-a)/3 + rng.Intn((b-a)/3)
		h := 1 + rng.Intn(40)
		nt := &Topo{Order: cur.Order}
		for _, tn := range cur.Nodes {
			cp := *tn
			cp.Slots = append([][2]int(nil), tn.Slots...)
			if tn == x {
				cp.Slots[ri] = [2]int{a, m - 1}
			}
			if tn == y {
				cp.Slots = append(cp.Slots, [2]int{m + h, b})
			}
			nt.Nodes = append(nt.Nodes, &cp)
		}
		nt.Install(env.Cl)
		env.T = nt
		cl, err := env.Dial()
		must(err, "dial")
		adopted := false
		got := 0
		for dl := time.Now().Add(20 * time.Second); time.Now().Before(dl) && !adopted; {
			tok := newToken("adopt")
			before := env.Cl.LogLen()
			cl.Send(Req("SET", Key(m+h+rng.Intn(b-m-h+1), tok), "v"))
			got++
			if !cl.WaitReplies(got, 5*time.Second) {
				break
			}
			for _, r := range env.Cl.Log()[before:] {
				if r.Node == y.Node && r.Cmd == "set" && strings.Contains(FirstKey(r), tok) {
					adopted = true
				}
			}
			if !adopted {
				time.Sleep(200 * time.Millisecond)
			}
		}
		cl.Close()
		if !adopted {
			c.Count("shrink_not_adopted_within_20s(C14 subject)", 1)
			return
		}
		env.Barrier()
		before := env.Cl.LogLen()
		cl, err = env.Dial()
		must(err, "dial")
		type sent struct {
			raw  []byte
			keys []string
		}
		var reqs []sent
		for i := 0; i < 60; i++ {
			slot := m + rng.Intn(h)
			tok := newToken("hole")
			k := Key(slot, tok)
			var raw []byte
			keys := []string{k}
			switch rng.Intn(5) {
			case 0:
				raw = Req("SET", k, "v")
			case 1:
				raw = Req("MGET", k, Key(slot, tok+"b"))
				keys = append(keys, Key(slot, tok+"b"))
			case 2:
				raw = Req("DEL", k)
			case 3:
				raw = Req("EVAL", "return 1", "1", k)
			default:
				raw = Req("GET", k)
			}
			reqs = append(reqs, sent{raw, keys})
			cl.Send(raw)
		}
		ok := cl.WaitReplies(len(reqs), 10*time.Second)
		env.Barrier()
		snap := cl.Snapshot()
		cl.Close()
		shape := fmt.Sprintf("range-cut/hole=%d", h)
		c.Eval(len(reqs))
		c.Distinct(fmt.Sprintf("shrink/%d/%d", round, h))
		for _, r := range env.Cl.Log()[before:] {
			ks := KeySlot([]byte(FirstKey(r)))
			if ks >= m && ks < m+h && strings.Contains(FirstKey(r), "hole") {
				c.Violate(Violation{Class: "request-for-unowned-slot-forwarded", Shape: shape,
					Detail:  fmt.Sprintf("slots %d-%d lost their owner (every node stayed; the tail %d-%d of the cut range demonstrably moved to its new master), but %s for slot %d was still delivered to node %s", m, m+h-1, m+h, b, strings.ToUpper(r.Cmd), ks, r.Node.Addr),
					Witness: map[string]interface{}{"request": Q(r.Raw[:minInt(len(r.Raw), 200)]), "previous_owner": x.Addr, "description": string(nt.Reply(env.Cl.Nodes[0]))}})
				return
			}
		}
		if !ok {
			c.Count("shrink_replies_incomplete(C15/C09 subject)", 1)
		}
		for i, rp := range snap.Replies {
			if i < len(reqs) && rp.Val.Kind != '-' {
				c.Violate(Violation{Class: "request-for-unowned-slot-answered-with-data", Shape: shape,
					Detail:  fmt.Sprintf("request %s for a slot without owner was answered %s", Q(reqs[i].raw), Q(rp.Val.Raw[:minInt(len(rp.Val.Raw), 80)])),
					Witness: map[string]interface{}{"hole": []int{m, m + h - 1}}})
				return
			}
		}
		c.Count("unowned_slot_requests_verified", int64(len(reqs)))
	}
}

func roleName(r Role) string {
	switch r {
	case RoleRead:
		return "read"
	case RoleWrite:
		return "write"
	case RoleScan:
		return "scan"
	case RoleScript:
		return "script"
	}
	return "local"
}

// c04hooks arms a delay inside the topology refresh (between the node map and the
// replica sets being replaced) for configurations that change topology live, so that
// the event loop's table rebuild can run inside that window.
func c04hooks(cf c04cfg) []string {
	if !cf.swap {
		return nil
	}
	return []string{"RCPROXY_VERIF_POINTS=cluster.beforeSetReplicaset=sleep(1300),cluster.setServerMid=sleep(400)"}
}
