package main

import (
	"bytes"
	"fmt"
	"math/rand"
	"runtime/debug"
	"strings"
	"sync"
	"time"

	. "vcheck/lib"
)

func init() { register("C02", "exploration", runC02) }

// lowerName returns raw with the payload of the first bulk (the command name)
// lower-cased; raw must be a canonical request.
func lowerName(raw []byte) []byte {
	out := append([]byte(nil), raw...)
	// *N\r\n$L\r\nNAME\r\n
	i := bytes.IndexByte(out, '\n')
	if i < 0 {
		return out
	}
	j := bytes.IndexByte(out[i+1:], '\n')
	if j < 0 {
		return out
	}
	start := i + 1 + j + 1
	end := bytes.IndexByte(out[start:], '\r')
	if end < 0 {
		return out
	}
	for k := start; k < start+end; k++ {
		if out[k] >= 'A' && out[k] <= 'Z' {
			out[k] += 32
		}
	}
	return out
}

type c02stats struct {
	mu       sync.Mutex
	emptyKey sync.Mutex
}

func runC02(c *Check, rng *rand.Rand) {
	c.Rule = "every supported single-key command x argument profiles (empty, 1 byte, all 256 byte values, CR/LF/$/*, random binary, up to multi-MB) x random letter case x random RESP2 replies (status, error, integer, bulk, null, null/empty/nested arrays), client writes and backend replies cut into random pieces; request bytes at the owning node and reply bytes at the client compared byte for byte; distinct = (command, arg-count, reply kind, size class)"
	c.Assumptions = []string{
		"error replies the proxy itself acts on (MOVED, ASK, NOAUTH, invalid password, AUTH without password) are excluded as the property states",
		"sizes stay below the configured limit (default 6 MiB); the limit itself is C17's subject",
	}
	type cfg struct {
		name string
		opt  EnvOpt
		hs   string
	}
	cfgs := []cfg{
		{"default", EnvOpt{Masters: 4}, ""},
		{"password+replica", EnvOpt{Masters: 3, Replicas: 1, Cfg: ProxyCfg{Password: "p@ss w0rd"}}, "merge"},
		// slow log on: every sixth reply is held back beyond its threshold, so the proxy
		// also writes a slow-log entry for requests whose bytes are being compared
		{"slowlog", EnvOpt{Masters: 4, Cfg: ProxyCfg{SlowLog: 15}}, ""},
	}
	if c.Thorough() {
		cfgs = append(cfgs,
			cfg{"streambuf64", EnvOpt{Masters: 4, Cfg: ProxyCfg{StreamBuf: 64}}, ""},
			cfg{"password+replica/split", EnvOpt{Masters: 3, Replicas: 1, Cfg: ProxyCfg{Password: "pw"}}, "split"},
			cfg{"race", EnvOpt{Masters: 4, Mode: "race"}, ""},
			cfg{"asan", EnvOpt{Masters: 4, Mode: "asan"}, ""},
		)
	}
	var wg sync.WaitGroup
	// at most two configurations at a time: the fake nodes keep every request byte they
	// received until their environment is closed, which in the thorough tier is gigabytes
	// per configuration
	sem := make(chan struct{}, 2)
	for i, cf := range cfgs {
		wg.Add(1)
		go func(i int, cf cfg) {
			defer wg.Done()
			sem <- struct{}{}
			defer func() { <-sem; debug.FreeOSMemory() }()
			defer func() {
				if r := recover(); r != nil {
					if ie, ok := r.(infraErr); ok {
						c.Inconclusive("[%s] %s", cf.name, string(ie))
						return
					}
					panic(r)
				}
			}()
			c02config(c, c.Seed*100+int64(i), cf.name, cf.opt, cf.hs)
		}(i, cf)
	}
	wg.Wait()
	c02timeout(c, c.Seed+31)
	c.MinEvals = 500
}

func c02config(c *Check, seed int64, name string, opt EnvOpt, hs string) {
	env, err := NewEnv(opt)
	must(err, "start env "+name)
	defer env.Close()
	env.Cl.HandshakeMode = hs
	script := NewScript()
	env.Cl.SetHandler(script.Handler)
	singles := SingleKeyCommands()
	nreq := c.Pick(6000, 120000)
	nbig := c.Pick(24, 120)
	if name != "default" {
		nreq /= 2
		nbig /= 3
	}
	workers := 8
	var wg sync.WaitGroup
	var emptyKeyMu sync.Mutex
	for w := 0; w < workers; w++ {
		wg.Add(1)
		go func(w int) {
			defer wg.Done()
			defer func() {
				if r := recover(); r != nil {
					if ie, ok := r.(infraErr); ok {
						c.Inconclusive("[%s] %s", name, string(ie))
						return
					}
					panic(r)
				}
			}()
			rng := rand.New(rand.NewSource(seed*97 + int64(w)))
			cl, err := env.Dial()
			must(err, "dial")
			defer func() { cl.Close() }()
			got := 0
			for i := 0; i < nreq/workers; i++ {
				if !env.P.Alive() {
					return
				}
				if c.NViol() > 40 {
					// enough witnesses: every further violation costs a 30 s wait
					c.Count("workload_cut_short_after_40_violations", 1)
					return
				}
				cmd := singles[(i*workers+w)%len(singles)]
				if rng.Intn(3) == 0 {
					cmd = singles[rng.Intn(len(singles))]
				}
				big := 0
				if w == 0 && i < nbig {
					big = []int{70000, 1 << 20, 3 << 20, 5<<20 + 500000}[i%4]
					if opt.Cfg.StreamBuf > 0 {
						big = 70000 // with a 64-byte read buffer every read re-parses the whole request: keep it small
					}
					if opt.Mode != "" && big > 1<<20 {
						big = 1 << 20 // sanitizer builds are ~10x slower and the re-parse is quadratic
					}
				}
				tok := newToken("b")
				var key []byte
				switch rng.Intn(8) {
				case 0:
					key = []byte{}
				case 1:
					key = append([]byte(tok), genArg(rng, 0)...)
				case 2:
					key = []byte(tok + "\r\n")
				default:
					key = []byte(tok)
				}
				lockedEmpty := len(key) == 0
				if lockedEmpty {
					emptyKeyMu.Lock()
				}
				args := genCommand(rng, cmd, key, 0)
				if big > 0 {
					// force one multi-KB/MB argument (the key itself for 1-argument commands)
					ai := 1 + rng.Intn(len(args)-1)
					pay := make([]byte, big/2+rng.Intn(big/2))
					rng.Read(pay)
					if ai == 1+KeyIndex(CmdTable[cmd]) {
						key = append(append([]byte(nil), key...), pay...)
						args[ai] = key
					} else {
						args[ai] = pay
					}
				}
				raw := EncodeReq(args...)
				replyBig := 0
				if big > 0 && rng.Intn(2) == 0 {
					replyBig = big
				}
				reply := genReply(rng, 0, replyBig)
				var chunks []int
				if rng.Intn(3) == 0 {
					for k := rng.Intn(6); k > 0; k-- {
						chunks = append(chunks, 1+rng.Intn(minInt(len(reply), 40)))
					}
				}
				plan := script.Plan(string(key))
				var delay time.Duration
				if name == "slowlog" && rng.Intn(6) == 0 {
					delay = 25 * time.Millisecond
				}
				plan.Act = func(r *BReq) Action { return Action{Reply: reply, Chunks: chunks, Delay: delay} }
				if rng.Intn(3) == 0 {
					var sizes []int
					maxc := 1 + rng.Intn(50)
					if len(raw) > 100000 {
						// at least 16 KB per write: the proxy re-parses everything buffered on
						// every read, so dripping a multi-MB request in tiny pieces costs it
						// O(n^2) and stalls the single event loop for minutes (a performance
						// weakness noted in DESIGN.md section 8, not a byte-exactness subject)
						maxc = 16384 + rng.Intn(len(raw)/2)
					}
					for rem := len(raw); rem > 0; {
						s := 1 + rng.Intn(maxc)
						if len(raw) > 100000 && s < 16384 {
							s = 16384
						}
						sizes = append(sizes, s)
						rem -= s
					}
					cl.SendChunks(raw, sizes, 0)
				} else {
					cl.Send(raw)
				}
				got++
				ok := cl.WaitReplies(got, 30*time.Second)
				seen := plan.SeenReqs()
				script.Forget(string(key))
				if lockedEmpty {
					emptyKeyMu.Unlock()
				}
				shape := fmt.Sprintf("%s/args=%d", cmd, len(args)-1)
				wit := map[string]interface{}{"config": name, "request": Q(raw), "planned_reply": Q(reply), "reply_chunks": chunks}
				c.Eval(1)
				c.Distinct(fmt.Sprintf("%s|%s|%d|%c|%d", name, cmd, len(args), reply[0], sizeClass(len(raw)+len(reply))))
				if !ok {
					s := cl.Snapshot()
					if !env.P.Alive() {
						c.Violate(Violation{Class: "proxy-died", Shape: shape, Detail: env.P.PanicLine(), Witness: wit})
						return
					}
					wit["received"] = valStrings(s.Replies)
					wit["garbage"] = s.GarbErr
					wit["backend_saw"] = len(seen)
					c.Violate(Violation{Class: "no-reply", Shape: shape, Detail: fmt.Sprintf("no reply within 30 s (closed=%v, garbage=%q, backend saw %d requests)", s.Closed, s.GarbErr, len(seen)), Witness: wit})
					cl.Close()
					cl, err = env.Dial()
					must(err, "redial")
					got = 0
					continue
				}
				if len(seen) != 1 {
					c.Violate(Violation{Class: "backend-request-count", Shape: shape, Detail: fmt.Sprintf("owning backend saw %d requests for this key, expected 1", len(seen)), Witness: wit})
				} else if !bytes.Equal(lowerName(seen[0].Raw), lowerName(raw)) {
					d := firstDiffB(lowerName(seen[0].Raw), lowerName(raw))
					wit["backend_received"] = Q(seen[0].Raw)
					c.Violate(Violation{Class: "request-bytes-altered", Shape: shape, Detail: fmt.Sprintf("backend received different bytes (first difference at offset %d of %d)", d, len(raw)), Witness: wit})
				} else {
					c.Count("request_bytes_compared", int64(len(raw)))
				}
				s := cl.Snapshot()
				gotv := s.Replies[got-1].Val
				if !bytes.Equal(gotv.Raw, reply) {
					wit["client_received"] = Q(gotv.Raw)
					c.Violate(Violation{Class: "reply-bytes-altered", Shape: fmt.Sprintf("%s/reply=%c", cmd, reply[0]), Detail: fmt.Sprintf("client received different reply bytes (first difference at offset %d of %d)", firstDiffB(gotv.Raw, reply), len(reply)), Witness: wit})
				} else {
					c.Count("reply_bytes_compared", int64(len(reply)))
				}
				if i < 1 && w == 1 {
					c.Sample(map[string]interface{}{"config": name, "request": Q(raw), "reply": Q(reply)})
				}
			}
		}(w)
	}
	wg.Wait()
	if !env.P.Alive() {
		return
	}
	// handshake episodes: kill idle backend connections so that the next
	// requests run over fresh connections (AUTH/READONLY handshake replies
	// split or merged with the first data reply)
	if hs != "" {
		rng := rand.New(rand.NewSource(seed + 5))
		cl, err := env.Dial()
		must(err, "dial")
		got := 0
		for ep := 0; ep < c.Pick(10, 100); ep++ {
			for _, n := range env.Cl.Nodes {
				n.KillConns()
			}
			env.Barrier()
			for k := 0; k < 6; k++ {
				tok := newToken("h")
				reply := genReply(rng, 0, 0)
				plan := script.Plan(tok)
				plan.Act = func(r *BReq) Action { return Action{Reply: reply} }
				raw := Req("GET", tok)
				if k%2 == 1 {
					raw = Req("SET", tok, "v")
				}
				cl.Send(raw)
				got++
				if !cl.WaitReplies(got, 10*time.Second) {
					// a killed backend connection may have been picked up with the
					// request in flight: that is C15's subject, start over
					cl.Close()
					cl, err = env.Dial()
					must(err, "redial")
					got = 0
					c.Count("handshake_episode_requests_lost_to_reconnect", 1)
					continue
				}
				gotv := cl.Snapshot().Replies[got-1].Val
				c.Eval(1)
				if gotv.Kind == '-' && bytes.Contains(gotv.Str, []byte("proxy pool")) {
					c.Count("handshake_episode_pool_errors", 1)
					continue
				}
				if !bytes.Equal(gotv.Raw, reply) {
					c.Violate(Violation{Class: "reply-bytes-altered", Shape: "after-handshake/" + hs, Detail: fmt.Sprintf("first replies after a %s handshake: got %s want %s", hs, Q(gotv.Raw), Q(reply)),
						Witness: map[string]interface{}{"config": name, "request": Q(raw), "planned_reply": Q(reply)}})
				} else {
					c.Count("replies_after_fresh_handshake_verified", 1)
				}
				script.Forget(tok)
			}
		}
		cl.Close()
	}
	c02slow(c, env, script, seed, name)
	c02slowSmall(c, env, script, seed, name)
	c02stopAndGo(c, env, script, seed, name)
	c.Count("race_reports_diagnostic_"+name, int64(env.P.RaceReports()))
}

// c02slow: a client with a tiny receive buffer that does not read until a
// large backlog of replies is pending (EAGAIN, partial writev, ring -> list
// spill), then reads everything.
func c02slow(c *Check, env *Env, script *Script, seed int64, name string) {
	rng := rand.New(rand.NewSource(seed + 77))
	cl, err := DialClient(env.P.Addr, "", 2048)
	must(err, "dial slow reader")
	defer cl.Close()
	cl.PauseReading(true)
	n := c.Pick(150, 600)
	var replies [][]byte
	var keys []string
	total := 0
	for i := 0; i < n; i++ {
		tok := newToken("s")
		sz := 1 + rng.Intn(c.Pick(300000, 120000))
		if i%5 == 0 {
			sz = rng.Intn(20)
		}
		payload := make([]byte, sz)
		rng.Read(payload)
		reply := BulkReply(payload)
		if i%7 == 0 {
			reply = genReply(rng, 0, 2000)
		}
		rep := reply
		script.Plan(tok).Act = func(r *BReq) Action { return Action{Reply: rep} }
		replies = append(replies, reply)
		keys = append(keys, tok)
		total += len(reply)
		if err := cl.Send(Req("GET", tok)); err != nil {
			infra("slow reader send: %v", err)
		}
		if i%10 == 9 {
			env.Barrier()
		}
	}
	env.Barrier()
	time.Sleep(300 * time.Millisecond)
	env.Barrier()
	cl.PauseReading(false)
	ok := cl.WaitReplies(n, 180*time.Second)
	s := cl.Snapshot()
	c.Eval(1)
	c.Distinct(fmt.Sprintf("%s|slow-reader|%d", name, n))
	c.Count("slow_reader_backlog_bytes", int64(total))
	wit := map[string]interface{}{"config": name, "requests": n, "backlog_bytes": total, "received_replies": len(s.Replies), "garbage": s.GarbErr}
	if !env.P.Alive() {
		c.Violate(Violation{Class: "proxy-died", Shape: "slow-reader", Detail: env.P.PanicLine(), Witness: wit})
		return
	}
	if !ok {
		c.Violate(Violation{Class: "slow-reader-incomplete", Shape: "slow-reader", Detail: fmt.Sprintf("slow reader got %d of %d replies (garbage=%q closed=%v)", len(s.Replies), n, s.GarbErr, s.Closed), Witness: wit})
	}
	for i := 0; i < len(s.Replies) && i < n; i++ {
		if !bytes.Equal(s.Replies[i].Val.Raw, replies[i]) {
			wit["position"] = i
			wit["want"] = Q(replies[i])
			wit["got"] = Q(s.Replies[i].Val.Raw)
			c.Violate(Violation{Class: "reply-bytes-altered", Shape: "slow-reader", Detail: fmt.Sprintf("slow reader: reply %d differs at offset %d", i, firstDiffB(s.Replies[i].Val.Raw, replies[i])), Witness: wit})
			break
		}
		c.Count("reply_bytes_compared", int64(len(replies[i])))
	}
	script.Forget(keys...)
	c.Sample(map[string]interface{}{"config": name, "episode": "slow reader", "requests": n, "backlog_bytes": total})
}

func sizeClass(n int) int {
	switch {
	case n < 100:
		return 0
	case n < 5000:
		return 1
	case n < 100000:
		return 2
	case n < 2000000:
		return 3
	}
	return 4
}

func firstDiffB(a, b []byte) int {
	n := len(a)
	if len(b) < n {
		n = len(b)
	}
	for i := 0; i < n; i++ {
		if a[i] != b[i] {
			return i
		}
	}
	return n
}

func minInt(a, b int) int {
	if a < b {
		return a
	}
	return b
}

// c02slowSmall: a non-reading client pipelines thousands of requests with small
// replies in batches, so that after the socket has filled up the proxy keeps
// appending several small replies per flush to a short outbound backlog.
func c02slowSmall(c *Check, env *Env, script *Script, seed int64, name string) {
	rng := rand.New(rand.NewSource(seed + 78))
	cl, err := DialClient(env.P.Addr, "", 2048)
	must(err, "dial slow reader")
	defer cl.Close()
	cl.PauseReading(true)
	n := c.Pick(9000, 30000)
	replies := make([][]byte, 0, n)
	keys := make([]string, 0, n)
	total := 0
	var batch []byte
	for i := 0; i < n; i++ {
		tok := newToken("q")
		payload := make([]byte, 600+rng.Intn(1400))
		rng.Read(payload)
		rep := BulkReply(payload)
		script.Plan(tok).Act = func(r *BReq) Action { return Action{Reply: rep} }
		replies = append(replies, rep)
		keys = append(keys, tok)
		total += len(rep)
		batch = append(batch, Req("GET", tok)...)
		if i%40 == 39 || i == n-1 {
			if err := cl.Send(batch); err != nil {
				infra("slow reader send: %v", err)
			}
			batch = batch[:0]
			if i%400 == 399 {
				env.Barrier()
			}
		}
	}
	env.Barrier()
	time.Sleep(200 * time.Millisecond)
	env.Barrier()
	cl.PauseReading(false)
	// progress-based wait: a sanitizer build may need minutes for this backlog; what is
	// judged is a stream that stops (no new reply for 60 s), not one that is slow
	ok := false
	for last, idle := -1, 0; idle < 2; {
		if ok = cl.WaitReplies(n, 30*time.Second); ok {
			break
		}
		if got := cl.NReplies(); got == last {
			idle++
		} else {
			last, idle = got, 0
		}
		if time.Since(c.Start) > 50*time.Minute {
			break
		}
	}
	s := cl.Snapshot()
	c.Eval(1)
	c.Distinct(fmt.Sprintf("%s|slow-reader-small-replies|%d", name, n))
	c.Count("slow_reader_backlog_bytes", int64(total))
	wit := map[string]interface{}{"config": name, "requests": n, "backlog_bytes": total, "received_replies": len(s.Replies), "garbage": s.GarbErr, "episode": "slow reader, small replies in batches of 40"}
	if !env.P.Alive() {
		c.Violate(Violation{Class: "proxy-died", Shape: "slow-reader", Detail: env.P.PanicLine(), Witness: wit})
		return
	}
	if !ok && s.GarbErr == "" {
		c.Violate(Violation{Class: "slow-reader-incomplete", Shape: "slow-reader-small", Detail: fmt.Sprintf("slow reader got %d of %d replies (closed=%v)", len(s.Replies), n, s.Closed), Witness: wit})
	}
	if len(s.Replies) > n {
		c.Violate(Violation{Class: "reply-bytes-altered", Shape: "slow-reader-small", Detail: fmt.Sprintf("slow reader got %d replies for %d requests (duplicated bytes)", len(s.Replies), n), Witness: wit})
	}
	for i := 0; i < len(s.Replies) && i < n; i++ {
		if !bytes.Equal(s.Replies[i].Val.Raw, replies[i]) {
			wit["position"] = i
			c.Violate(Violation{Class: "reply-bytes-altered", Shape: "slow-reader-small", Detail: fmt.Sprintf("slow reader: reply %d differs at offset %d (duplicated / lost / reordered bytes in the backlog)", i, firstDiffB(s.Replies[i].Val.Raw, replies[i])), Witness: wit})
			break
		}
		c.Count("reply_bytes_compared", int64(len(replies[i])))
	}
	if s.GarbErr != "" {
		c.Violate(Violation{Class: "reply-bytes-altered", Shape: "slow-reader-small", Detail: "reply stream stopped parsing: " + s.GarbErr, Witness: wit})
	}
	script.Forget(keys...)
}

// c02stopAndGo: a client that reads in bursts while replies keep arriving
// (backlog spills past the static part, is partly drained, then grows again),
// twice on the same connection with a complete drain in between; between the
// two bursts other clients hang up in the middle of a request.
func c02stopAndGo(c *Check, env *Env, script *Script, seed int64, name string) {
	rng := rand.New(rand.NewSource(seed + 79))
	cl, err := DialClient(env.P.Addr, "", 4096)
	must(err, "dial stop-and-go reader")
	defer cl.Close()
	var replies [][]byte
	var keys []string
	total := 0
	sent := 0
	for burst := 0; burst < 2; burst++ {
		cl.PauseReading(true)
		waves := 6 + rng.Intn(6)
		for w := 0; w < waves; w++ {
			nreq := 40 + rng.Intn(80)
			var batch []byte
			for i := 0; i < nreq; i++ {
				tok := newToken("g")
				payload := make([]byte, 2000+rng.Intn(30000))
				rng.Read(payload)
				rep := BulkReply(payload)
				script.Plan(tok).Act = func(r *BReq) Action { return Action{Reply: rep} }
				replies = append(replies, rep)
				keys = append(keys, tok)
				total += len(rep)
				batch = append(batch, Req("GET", tok)...)
				if i%8 == 7 {
					cl.Send(batch)
					batch = batch[:0]
				}
			}
			cl.Send(batch)
			sent += nreq
			env.Barrier()
			// read for a short while: a partial drain, then more replies on top of the rest
			cl.PauseReading(false)
			time.Sleep(time.Duration(1+rng.Intn(15)) * time.Millisecond)
			cl.PauseReading(true)
		}
		cl.PauseReading(false)
		ok := cl.WaitReplies(sent, 120*time.Second)
		if !ok {
			break
		}
		if burst == 0 {
			// other clients hang up in the middle of a request (their leftovers must die with them)
			for k := 0; k < 6; k++ {
				ab, err := env.Dial()
				must(err, "dial")
				pz := Req("SET", "half"+itoa(k), strings.Repeat("z", 300+rng.Intn(3000)))
				cut := len(pz) - 1 - rng.Intn(len(pz)/2)
				ab.SendChunks(pz[:cut], []int{cut / 2}, 200*time.Microsecond)
				env.Barrier()
				ab.Abort()
			}
			env.Barrier()
		}
	}
	s := cl.Snapshot()
	c.Eval(1)
	c.Distinct(fmt.Sprintf("%s|stop-and-go-reader|%d", name, sent))
	c.Count("slow_reader_backlog_bytes", int64(total))
	wit := map[string]interface{}{"config": name, "requests": sent, "bytes": total, "received_replies": len(s.Replies), "garbage": s.GarbErr, "episode": "reader alternates between reading and not reading while replies keep arriving; two bursts on one connection"}
	if !env.P.Alive() {
		c.Violate(Violation{Class: "proxy-died", Shape: "stop-and-go-reader", Detail: env.P.PanicLine(), Witness: wit})
		return
	}
	if len(s.Replies) < sent && s.GarbErr == "" {
		c.Violate(Violation{Class: "slow-reader-incomplete", Shape: "stop-and-go-reader", Detail: fmt.Sprintf("reader got %d of %d replies (closed=%v)", len(s.Replies), sent, s.Closed), Witness: wit})
	}
	if s.GarbErr != "" {
		c.Violate(Violation{Class: "reply-bytes-altered", Shape: "stop-and-go-reader", Detail: "reply stream stopped parsing (reordered bytes): " + s.GarbErr, Witness: wit})
	}
	for i := 0; i < len(s.Replies) && i < sent; i++ {
		if !bytes.Equal(s.Replies[i].Val.Raw, replies[i]) {
			wit["position"] = i
			c.Violate(Violation{Class: "reply-bytes-altered", Shape: "stop-and-go-reader", Detail: fmt.Sprintf("reply %d differs at offset %d (bytes of the backlog reordered, lost or duplicated)", i, firstDiffB(s.Replies[i].Val.Raw, replies[i])), Witness: wit})
			break
		}
		c.Count("reply_bytes_compared", int64(len(replies[i])))
	}
	script.Forget(keys...)
}

// c02timeout: with a request timeout configured a stalled request is answered with the
// timeout error; the requests after it, and the ones sent after the backend's late
// reply has arrived, still get exactly their own backend's bytes.
func c02timeout(c *Check, seed int64) {
	env, err := NewEnv(EnvOpt{Masters: 4, Cfg: ProxyCfg{Timeout: 300}})
	must(err, "start env")
	defer env.Close()
	script := NewScript()
	env.Cl.SetHandler(script.Handler)
	rng := rand.New(rand.NewSource(seed))
	for round := 0; round < c.Pick(4, 60) && env.P.Alive(); round++ {
		cl, err := env.Dial()
		must(err, "dial")
		stallNode := env.T.Nodes[round%4]
		stalled := Key(slotOf(stallNode, rng), newToken("ts"))
		g := NewGate()
		script.Plan(stalled).Gate = g
		cl.Send(Req("GET", stalled))
		cl.WaitReplies(1, 4*time.Second) // the timeout error
		got := 1
		verify := func(phase string, n int) {
			for k := 0; k < n; k++ {
				tok := newToken("tb")
				other := env.T.Nodes[(round+1+k%3)%4]
				key := Key(slotOf(other, rng), tok)
				reply := genReply(rng, 0, 0)
				script.Plan(key).Act = func(*BReq) Action { return Action{Reply: reply} }
				raw := Req("GETSET", key, "x")
				cl.Send(raw)
				got++
				c.Eval(1)
				c.Distinct(fmt.Sprintf("timeout|%s|%c", phase, reply[0]))
				if !cl.WaitReplies(got, 5*time.Second) {
					c.Violate(Violation{Class: "no-reply", Shape: "after-timeout/" + phase, Detail: "request after a timed-out one got no reply", Witness: map[string]interface{}{"request": Q(raw)}})
					return
				}
				if v := cl.Snapshot().Replies[got-1].Val; !bytes.Equal(v.Raw, reply) {
					c.Violate(Violation{Class: "reply-bytes-altered", Shape: "after-timeout/" + phase,
						Detail:  fmt.Sprintf("request sent %s: client got %s, its backend answered %s", phase, Q(v.Raw), Q(reply)),
						Witness: map[string]interface{}{"request": Q(raw), "planned_reply": Q(reply)}})
					return
				}
				c.Count("reply_bytes_compared", int64(len(reply)))
				script.Forget(key)
			}
		}
		verify("after the timeout error", 4)
		g.Open() // the late reply of the timed-out request
		env.Barrier()
		verify("after the late backend reply", 6)
		cl.Close()
		script.Forget(stalled)
	}
}
