package main

// Pipeline generator and the per-position reply oracle shared by the
// pipeline-shaped properties (C01, C03, C09, C10, C13, C16).

import (
	"bytes"
	"fmt"
	"math/rand"
	"strings"
	"sync/atomic"

	. "vcheck/lib"
)

var tokSeq int64

func newToken(prefix string) string {
	return fmt.Sprintf("%s%d", prefix, atomic.AddInt64(&tokSeq, 1))
}

// PReq is one request of a client pipeline with what the reference expects.
type PReq struct {
	Kind   string // get getset mget del mset ping auth unknown arity quit
	Bytes  []byte
	Keys   []string // routing keys (multi: all keys)
	Token  string
	Gates  []*Gate     // one per fragment
	GateOf map[int]int // slot -> index in Gates
	Nodes  []int       // node index per fragment gate
	Local  bool
	// Expect: exact bytes, or nil when only "is an error" is required
	Expect    []byte
	ExpectErr bool
	ExpectAny [][]byte // any of these
}

func (r *PReq) String() string { return r.Kind + ":" + r.Token }

type pipeGen struct {
	env    *Env
	script *Script
	rng    *rand.Rand
	gated  bool
	// weights
	wSingle, wMulti, wPing, wAuth, wReject, wQuit int
	maxMultiKeys                                  int
	errFrag                                       int // 1 in errFrag split requests gets one fragment answered with an error (0 = never)
	wUnroutable                                   int // weight of requests with a key in an unowned slot (needs a topology with a gap)
	bigFrag, bigSize                              int // 1 in bigFrag split MGETs gets one fragment answered with bigSize bytes (above the proxy's limit)
}

// goodSlot draws a slot that has an owner in the environment's topology.
func (g *pipeGen) goodSlot() int {
	for {
		s := g.rng.Intn(16384)
		if g.env.T.Owner(s) != nil {
			return s
		}
	}
}

// unownedSlot draws a slot without owner (-1 when the topology has none).
func (g *pipeGen) unownedSlot() int {
	var free []int
	for s := 0; s < 16384; s++ {
		if g.env.T.Owner(s) == nil {
			free = append(free, s)
		}
	}
	if len(free) == 0 {
		return -1
	}
	return free[g.rng.Intn(len(free))]
}

// unroutable builds a request the proxy has to answer itself with an error because
// (one of) its key(s) lies in a slot nobody owns: a single-key request, or a split
// request whose other keys are routable (in front of, behind or around the bad one).
// Nothing of it may reach a node; the requests behind it must be unaffected.
func (g *pipeGen) unroutable() *PReq {
	tok := newToken("n")
	bad := g.unownedSlot()
	if bad < 0 {
		return g.reject()
	}
	if g.rng.Intn(3) == 0 {
		key := Key(bad, tok)
		return &PReq{Kind: "unroutable", Bytes: Req("GET", key), Keys: []string{key}, ExpectErr: true, Local: true, Token: tok}
	}
	nk := 2 + g.rng.Intn(6)
	pos := g.rng.Intn(nk)
	keys := make([]string, nk)
	for i := range keys {
		if i == pos {
			keys[i] = Key(bad, fmt.Sprintf("%s.%d", tok, i))
		} else {
			keys[i] = Key(g.goodSlot(), fmt.Sprintf("%s.%d", tok, i))
		}
	}
	r := &PReq{Kind: "unroutable", Keys: keys, ExpectErr: true, Local: true, Token: tok}
	switch g.rng.Intn(3) {
	case 0:
		r.Bytes = Req(append([]string{"MGET"}, keys...)...)
	case 1:
		r.Bytes = Req(append([]string{"DEL"}, keys...)...)
	default:
		args := []string{"MSET"}
		for _, k := range keys {
			args = append(args, k, "v")
		}
		r.Bytes = Req(args...)
	}
	return r
}

func (g *pipeGen) ownerIdx(slot int) int {
	tn := g.env.T.Owner(slot)
	if tn == nil || tn.Node == nil {
		return -1
	}
	return tn.Node.Index
}

func (g *pipeGen) gateFor(keys ...string) *Gate {
	if !g.gated {
		return nil
	}
	gt := NewGate()
	for _, k := range keys {
		g.script.Plan(k).Gate = gt
	}
	return gt
}

// single builds a forwarded single-key request with a unique reply.
func (g *pipeGen) single() *PReq {
	tok := newToken("t")
	slot := g.goodSlot()
	key := Key(slot, tok)
	r := &PReq{Token: tok, Keys: []string{key}}
	switch g.rng.Intn(4) {
	case 0:
		r.Kind = "getset"
		r.Bytes = Req("GETSET", key, "x"+tok)
		r.Expect = BulkReply([]byte("r:getset:" + key))
	case 1:
		r.Kind = "hget"
		r.Bytes = Req("hGet", key, "f")
		r.Expect = BulkReply([]byte("r:hget:" + key))
	default:
		r.Kind = "get"
		r.Bytes = Req("GET", key)
		r.Expect = BulkReply([]byte("v:" + key))
	}
	if gt := g.gateFor(key); gt != nil {
		r.Gates = []*Gate{gt}
		r.Nodes = []int{g.ownerIdx(slot)}
	}
	return r
}

// multi builds a split MGET / DEL / MSET.
func (g *pipeGen) multi() *PReq {
	tok := newToken("m")
	nk := 2 + g.rng.Intn(g.maxMultiKeys-1)
	slots := make([]int, nk)
	keys := make([]string, nk)
	nslots := 1 + g.rng.Intn(nk)
	base := make([]int, nslots)
	for i := range base {
		base[i] = g.goodSlot()
	}
	for i := 0; i < nk; i++ {
		slots[i] = base[g.rng.Intn(nslots)]
		suffix := ""
		if g.rng.Intn(4) == 0 {
			suffix = "#absent"
		}
		keys[i] = Key(slots[i], fmt.Sprintf("%s.%d%s", tok, i, suffix))
	}
	r := &PReq{Token: tok, Keys: keys, GateOf: map[int]int{}}
	bySlot := map[int][]string{}
	var order []int
	for i, k := range keys {
		if _, ok := bySlot[slots[i]]; !ok {
			order = append(order, slots[i])
		}
		bySlot[slots[i]] = append(bySlot[slots[i]], k)
	}
	for _, s := range order {
		if gt := g.gateFor(bySlot[s]...); gt != nil {
			r.GateOf[s] = len(r.Gates)
			r.Gates = append(r.Gates, gt)
			r.Nodes = append(r.Nodes, g.ownerIdx(s))
		}
	}
	if g.errFrag > 0 && g.rng.Intn(g.errFrag) == 0 {
		// one fragment is answered with an error: the whole request must be
		// answered with one error, whatever arrives before or after it
		bad := order[g.rng.Intn(len(order))]
		pl := g.script.Plan(bySlot[bad][0])
		pl.Act = func(*BReq) Action {
			return Action{Reply: ErrReply("WRONGTYPE Operation against a key holding the wrong kind of value")}
		}
		r.ExpectErr = true
	}
	kindPick := g.rng.Intn(3)
	if g.bigFrag > 0 && !r.ExpectErr && len(order) >= 2 && g.rng.Intn(g.bigFrag) == 0 {
		// one fragment's reply exceeds the proxy's size limit: the whole request is
		// answered with an error
		kindPick = 0
		bad := order[g.rng.Intn(len(order))]
		pl := g.script.Plan(bySlot[bad][0])
		size := g.bigSize
		pl.Act = func(*BReq) Action {
			return Action{Reply: ArrayReply(BulkReply(bytes.Repeat([]byte("B"), size)))}
		}
		r.ExpectErr = true
	}
	switch kindPick {
	case 0:
		r.Kind = "mget"
		args := append([]string{"MGET"}, keys...)
		r.Bytes = Req(args...)
		el := make([][]byte, len(keys))
		for i, k := range keys {
			if v := ValueOf([]byte(k)); v != nil {
				el[i] = BulkReply(v)
			} else {
				el[i] = NullBulk()
			}
		}
		r.Expect = ArrayReply(el...)
	case 1:
		r.Kind = "del"
		args := append([]string{"del"}, keys...)
		r.Bytes = Req(args...)
		n := 0
		for _, k := range keys {
			if ValueOf([]byte(k)) != nil {
				n++
			}
		}
		r.Expect = IntReply(int64(n))
	default:
		r.Kind = "mset"
		args := []string{"MSet"}
		for _, k := range keys {
			args = append(args, k, "val"+k)
		}
		r.Bytes = Req(args...)
		r.Expect = StatusReply("OK")
	}
	return r
}

func (g *pipeGen) local() *PReq {
	switch g.rng.Intn(3) {
	case 0:
		return &PReq{Kind: "ping", Bytes: Req("PING"), Expect: StatusReply("PONG"), Local: true, Token: newToken("p")}
	default:
		return &PReq{Kind: "ping", Bytes: Req("ping"), Expect: StatusReply("PONG"), Local: true, Token: newToken("p")}
	}
}

func (g *pipeGen) auth() *PReq {
	// no password configured in these scenarios unless the env says so
	pw := g.env.P.Cfg.Password
	if pw != "" && g.rng.Intn(2) == 0 {
		return &PReq{Kind: "auth", Bytes: Req("AUTH", pw), Expect: StatusReply("OK"), Local: true, Token: newToken("a")}
	}
	return &PReq{Kind: "auth", Bytes: Req("AUTH", "nope"+newToken("")), ExpectErr: true, Local: true, Token: newToken("a")}
}

func (g *pipeGen) reject() *PReq {
	tok := newToken("r")
	switch g.rng.Intn(3) {
	case 0:
		return &PReq{Kind: "unknown", Bytes: Req("FLUSHALL"), ExpectErr: true, Local: true, Token: tok}
	case 1:
		return &PReq{Kind: "unknown", Bytes: Req("KEYS", "*"+tok), ExpectErr: true, Local: true, Token: tok}
	default:
		return &PReq{Kind: "arity", Bytes: Req("GET", "a"+tok, "b"), ExpectErr: true, Local: true, Token: tok}
	}
}

func (g *pipeGen) quit() *PReq {
	return &PReq{Kind: "quit", Bytes: Req("QUIT"), Expect: StatusReply("OK"), Local: true, Token: newToken("q")}
}

// pipeline builds n requests by the generator's weights. A QUIT may appear at
// most once and is then the last request: bytes a client sends after QUIT are
// unread when the proxy closes the socket, the kernel answers that with a
// reset, and a reset may destroy replies the client has not read yet - a loss
// that happens in the client's kernel, not in the proxy.
func (g *pipeGen) pipeline(n int) []*PReq {
	p := g.pipeline0(n)
	for i, r := range p {
		if r.Kind == "quit" && i != len(p)-1 {
			copy(p[i:], p[i+1:])
			p[len(p)-1] = r
			break
		}
	}
	return p
}

func (g *pipeGen) pipeline0(n int) []*PReq {
	var out []*PReq
	total := g.wSingle + g.wMulti + g.wPing + g.wAuth + g.wReject + g.wQuit + g.wUnroutable
	quitSeen := false
	for i := 0; i < n; i++ {
		x := g.rng.Intn(total)
		switch {
		case x >= total-g.wUnroutable:
			out = append(out, g.unroutable())
		case x < g.wSingle:
			out = append(out, g.single())
		case x < g.wSingle+g.wMulti:
			out = append(out, g.multi())
		case x < g.wSingle+g.wMulti+g.wPing:
			out = append(out, g.local())
		case x < g.wSingle+g.wMulti+g.wPing+g.wAuth:
			out = append(out, g.auth())
		case x < g.wSingle+g.wMulti+g.wPing+g.wAuth+g.wReject:
			out = append(out, g.reject())
		default:
			if quitSeen {
				out = append(out, g.local())
			} else {
				quitSeen = true
				out = append(out, g.quit())
			}
		}
	}
	return out
}

func kindSig(p []*PReq) string {
	var sb strings.Builder
	for _, r := range p {
		switch r.Kind {
		case "get", "getset", "hget":
			sb.WriteByte('F')
		case "mget":
			fmt.Fprintf(&sb, "G%d", len(r.Gates))
		case "del":
			fmt.Fprintf(&sb, "D%d", len(r.Gates))
		case "mset":
			fmt.Fprintf(&sb, "S%d", len(r.Gates))
		case "ping":
			sb.WriteByte('p')
		case "auth":
			sb.WriteByte('a')
		case "unknown":
			sb.WriteByte('u')
		case "arity":
			sb.WriteByte('w')
		case "unroutable":
			sb.WriteByte('n')
		case "quit":
			sb.WriteByte('q')
		}
	}
	return sb.String()
}

func concatReqs(p []*PReq) []byte {
	var b bytes.Buffer
	for _, r := range p {
		b.Write(r.Bytes)
	}
	return b.Bytes()
}

// expectedCount is the number of replies the pipeline must produce (requests
// after a QUIT expect nothing).
func expectedCount(p []*PReq) int {
	for i, r := range p {
		if r.Kind == "quit" {
			return i + 1
		}
	}
	return len(p)
}

func matches(r *PReq, v Val) bool {
	if r.ExpectErr {
		return v.Kind == '-'
	}
	if len(r.ExpectAny) > 0 {
		for _, e := range r.ExpectAny {
			if bytes.Equal(v.Raw, e) {
				return true
			}
		}
		return false
	}
	return bytes.Equal(v.Raw, r.Expect)
}

// pipeVerdict compares what a client received with the pipeline.
type pipeIssue struct {
	Class  string
	Shape  string
	Detail string
}

// checkPipeline is the C01 oracle. final: all gates were opened and the
// quiescence barrier passed.
func checkPipeline(p []*PReq, s Snap) []pipeIssue {
	var out []pipeIssue
	want := expectedCount(p)
	hasQuit := want < len(p) || (len(p) > 0 && p[len(p)-1].Kind == "quit")
	if s.GarbErr != "" {
		out = append(out, pipeIssue{"stray-or-malformed-bytes", "garbage", fmt.Sprintf("client stream stopped parsing: %s; bytes %s", s.GarbErr, Q(s.Garbage))})
	}
	if len(s.Pending) > 0 {
		out = append(out, pipeIssue{"stray-or-malformed-bytes", "partial-reply", fmt.Sprintf("incomplete trailing bytes %s", Q(s.Pending))})
	}
	n := len(s.Replies)
	for i := 0; i < n && i < want; i++ {
		if matches(p[i], s.Replies[i].Val) {
			continue
		}
		// classify the first mismatch
		got := s.Replies[i].Val
		cls, shape := "wrong-reply-at-position", p[i].Kind
		found := false
		for j := i + 1; j < want && !found; j++ {
			if p[j].Local && matches(p[j], got) {
				cls, shape = "local-reply-overtakes-pending", p[j].Kind
				found = true
			}
		}
		for j := i + 1; j < want && !found; j++ {
			if !p[j].Local && matches(p[j], got) {
				cls, shape = "forwarded-reply-out-of-order", p[j].Kind
				found = true
			}
		}
		for j := 0; j < i; j++ {
			if !p[j].Local && matches(p[j], got) {
				cls, shape = "duplicate-reply", p[j].Kind
			}
		}
		out = append(out, pipeIssue{cls, shape, fmt.Sprintf("position %d (%s): expected %s got %s; pipeline %s", i, p[i], expDesc(p[i]), got.String(), kindSig(p))})
		return out
	}
	if n < want {
		cls, shape := "missing-replies", "after-all-backends-answered"
		if hasQuit && s.Closed {
			cls, shape = "quit-drops-pending-replies", "quit"
		} else if s.Closed {
			shape = "connection-closed"
		}
		out = append(out, pipeIssue{cls, shape, fmt.Sprintf("got %d of %d replies (closed=%v); pipeline %s", n, want, s.Closed, kindSig(p))})
	}
	if n > want {
		out = append(out, pipeIssue{"extra-replies", "beyond-pipeline", fmt.Sprintf("got %d replies for %d requests; first extra %s", n, want, s.Replies[want].Val.String())})
	}
	if hasQuit && n >= want && !s.Closed {
		out = append(out, pipeIssue{"quit-does-not-close", "quit", "connection still open after QUIT was answered"})
	}
	return out
}

func expDesc(r *PReq) string {
	if r.ExpectErr {
		return "an error reply"
	}
	return Q(r.Expect)
}

// deepPipeline sends n GETs on one connection: the first one is gated on its
// node, all others go to other nodes and complete at once, so that n-1
// completed replies pile up behind the head.
func deepPipeline(env *Env, script *Script, rng *rand.Rand, n int) (*Client, []*PReq, *Gate, error) {
	cl, err := env.Dial()
	if err != nil {
		return nil, nil, nil, err
	}
	headSlot := rng.Intn(16384)
	headNode := env.T.Owner(headSlot)
	var p []*PReq
	tok := newToken("d")
	k := Key(headSlot, tok)
	gate := NewGate()
	script.Plan(k).Gate = gate
	p = append(p, &PReq{Kind: "get", Token: tok, Keys: []string{k}, Bytes: Req("GET", k), Expect: BulkReply([]byte("v:" + k)), Gates: []*Gate{gate}})
	for len(p) < n {
		s := rng.Intn(16384)
		if env.T.Owner(s) == headNode {
			continue
		}
		tok := newToken("d")
		k := Key(s, tok)
		p = append(p, &PReq{Kind: "get", Token: tok, Keys: []string{k}, Bytes: Req("GET", k), Expect: BulkReply([]byte("v:" + k))})
	}
	cl.Send(concatReqs(p))
	return cl, p, gate, nil
}
