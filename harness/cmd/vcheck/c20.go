package main

import (
	"fmt"
	"math/rand"
	"time"

	. "vcheck/lib"
)

func init() { register("C20", "exploration", runC20) }

func runC20(c *Check, rng *rand.Rand) {
	c.Rule = "topologies with r = 2,3,4 healthy replicas per master, replica reads on; N = 300*r read commands (many commands and slots of one master) interleaved with writes; every healthy replica must have served at least one read (false-alarm probability under a uniform pick < 1e-30), no write may reach a replica; repeated with one replica refusing connections; distinct = (topology, master, scenario)"
	c.Assumptions = []string{"nothing is asserted about whether or when an unhealthy (banned) replica is retried; only the healthy ones are counted"}
	rs := []int{2, 3}
	if c.Thorough() {
		rs = []int{2, 3, 4, 5}
	}
	for _, r := range rs {
		masters := 3
		// lines in a random order: like a real node (dictionary order of ids),
		// replicas routinely come before their masters
		env, err := NewEnv(EnvOpt{Masters: masters, Replicas: r, Topo: func(cl *Cluster) *Topo {
			t := EvenTopo(cl, masters, r)
			t.Order = rng.Perm(len(t.Nodes))
			return t
		}})
		must(err, "start env")
		env.Cl.SetHandler(func(b *BReq) Action { return Action{Reply: ValueReply(b)} })
		for phase := 0; phase < 2; phase++ {
			var downNode *Node
			if phase == 1 {
				// one replica of master 0 becomes unhealthy
				downNode = env.T.Replicas(env.T.Nodes[0].ID)[0].Node
				downNode.SetDown(true)
				time.Sleep(200 * time.Millisecond)
			}
			for m := 0; m < masters; m++ {
				if !env.P.Alive() {
					c.Violate(Violation{Class: "proxy-died", Shape: "read-spread", Detail: env.P.PanicLine()})
					break
				}
				mt := env.T.Nodes[m]
				env.Cl.ResetLog()
				cl, err := env.Dial()
				must(err, "dial")
				n := 300 * r
				reads := []string{"get", "hgetall", "llen", "smembers", "zcard", "strlen", "exists", "ttl", "type", "hget", "lrange", "zscore"}
				sent := 0
				// request pattern: strictly periodic (k reads then one write, k = 1..5)
				// or irregular; a pick that depends on the position of a read in the
				// request stream starves a replica under some period
				// masters alternate between an irregular mix and the strict period
				// "healthy-1 reads, one write" (the period that starves one replica of a
				// pick that is a function of the request counter)
				healthyN := r
				if phase == 1 && m == 0 {
					healthyN = r - 1
				}
				period := 0
				if (m+phase)%2 == 0 && healthyN >= 2 {
					period = healthyN - 1
				} else if m == 2 {
					period = 1 + rng.Intn(5)
				}
				for i := 0; i < n; i++ {
					slot := mt.Slots[0][0] + rng.Intn(mt.Slots[0][1]-mt.Slots[0][0]+1)
					key := []byte(Key(slot, newToken("rd")))
					cl.Send(EncodeReq(genCommand(rng, reads[rng.Intn(len(reads))], key, 0)...))
					sent++
					wr := i%5 == 0
					if period >= 1 && period <= 5 {
						wr = i%period == period-1
					}
					if wr {
						cl.Send(Req("SET", Key(slot, newToken("wr")), "v"))
						sent++
					}
					if i%50 == 49 {
						cl.WaitReplies(sent, 10*time.Second)
					}
				}
				if !cl.WaitReplies(sent, 20*time.Second) {
					c.Count("incomplete_read_runs", 1)
				}
				cl.Close()
				perNode := map[*Node]int{}
				writesAtReplica := 0
				for _, b := range env.Cl.Log() {
					ci := CmdTable[b.Cmd]
					if ci.Role == RoleRead {
						perNode[b.Node]++
					} else if b.Node != mt.Node {
						writesAtReplica++
					}
				}
				scen := fmt.Sprintf("r=%d/phase=%d", r, phase)
				c.Eval(1)
				c.Distinct(fmt.Sprintf("%s/master=%d/period=%d", scen, m, period))
				dist := map[string]int{}
				starved := 0
				healthy := 0
				for _, rep := range env.T.Replicas(mt.ID) {
					dist[rep.Addr] = perNode[rep.Node]
					if rep.Node == downNode {
						continue
					}
					healthy++
					if perNode[rep.Node] == 0 {
						starved++
					}
				}
				dist["master:"+mt.Addr] = perNode[mt.Node]
				wit := map[string]interface{}{"replicas": r, "reads_sent": n, "reads_per_write_period(0,6=irregular)": period, "cluster_nodes_line_order": env.T.Order, "reads_per_node": dist, "unhealthy_replica": addrOf(downNode)}
				if starved > 0 {
					shape := "all-healthy"
					if phase == 1 && m == 0 {
						shape = "one-replica-down"
					}
					c.Violate(Violation{Class: "healthy-replica-never-used", Shape: shape,
						Detail:  fmt.Sprintf("%d of %d healthy replicas received none of %d reads: %v", starved, healthy, n, dist),
						Witness: wit})
				} else {
					c.Count("runs_with_all_healthy_replicas_used", 1)
				}
				if writesAtReplica > 0 {
					c.Violate(Violation{Class: "write-at-replica", Shape: scen, Detail: fmt.Sprintf("%d writes reached a node other than the master", writesAtReplica), Witness: wit})
				}
				c.Count("reads_observed", int64(n))
				if m == 0 {
					c.Sample(wit)
				}
			}
			if downNode != nil {
				downNode.SetDown(false)
			}
		}
		env.Close()
	}
	c.MinEvals = 6
}

func addrOf(n *Node) string {
	if n == nil {
		return ""
	}
	return n.Addr
}
