package main

import (
	"fmt"
	"math/rand"
	"os"
	"sync"
	"time"

	. "vcheck/lib"
)

func init() { register("C20", "exploration", runC20) }

func runC20(c *Check, rng *rand.Rand) {
	c.Rule = "topologies with r = 2,3,5 (thorough: up to 8) healthy replicas per master, replica reads on; N = 300*r read commands (many commands and slots of one master) interleaved with writes; every healthy replica must have served at least one read (false-alarm probability under a uniform pick < 1e-30), no write may reach a replica; repeated with one replica refusing connections; a replica (one the proxy was configured with as a seed, and one it discovered) that was unreachable while reads flowed and is healthy again must serve reads again within 30 s; distinct = (topology, master, scenario)"
	c.Assumptions = []string{"nothing is asserted about whether or when an unhealthy (banned) replica is retried; only the healthy ones are counted"}
	rs := []int{2, 3, 5}
	if c.Thorough() {
		rs = []int{2, 3, 4, 5, 6, 8}
	}
	for _, r := range rs {
		masters := 3
		// lines in a random order: like a real node (dictionary order of ids),
		// replicas routinely come before their masters
		env, err := NewEnv(EnvOpt{Masters: masters, Replicas: r, Topo: func(cl *Cluster) *Topo {
			t := EvenTopo(cl, masters, r)
			t.Order = rng.Perm(len(t.Nodes))
			return t
		}})
		must(err, "start env")
		env.Cl.SetHandler(func(b *BReq) Action { return Action{Reply: ValueReply(b)} })
		for phase := 0; phase < 2; phase++ {
			var downNode *Node
			if phase == 1 {
				// one replica of master 0 becomes unhealthy
				downNode = env.T.Replicas(env.T.Nodes[0].ID)[0].Node
				downNode.SetDown(true)
				time.Sleep(200 * time.Millisecond)
			}
			for m := 0; m < masters; m++ {
				if !env.P.Alive() {
					c.Violate(Violation{Class: "proxy-died", Shape: "read-spread", Detail: env.P.PanicLine()})
					break
				}
				mt := env.T.Nodes[m]
				env.Cl.ResetLog()
				cl, err := env.Dial()
				must(err, "dial")
				n := 300 * r
				reads := []string{"get", "hgetall", "llen", "smembers", "zcard", "strlen", "exists", "ttl", "type", "hget", "lrange", "zscore"}
				sent := 0
				// request pattern: strictly periodic (k reads then one write, k = 1..5)
				// or irregular; a pick that depends on the position of a read in the
				// request stream starves a replica under some period
				// masters alternate between an irregular mix and the strict period
				// "healthy-1 reads, one write" (the period that starves one replica of a
				// pick that is a function of the request counter)
				healthyN := r
				if phase == 1 && m == 0 {
					healthyN = r - 1
				}
				period := 0
				if (m+phase)%2 == 0 && healthyN >= 2 {
					period = healthyN - 1
				} else if m == 2 {
					period = 1 + rng.Intn(5)
				}
				for i := 0; i < n; i++ {
					slot := mt.Slots[0][0] + rng.Intn(mt.Slots[0][1]-mt.Slots[0][0]+1)
					key := []byte(Key(slot, newToken("rd")))
					cl.Send(EncodeReq(genCommand(rng, reads[rng.Intn(len(reads))], key, 0)...))
					sent++
					wr := i%5 == 0
					if period >= 1 && period <= 5 {
						wr = i%period == period-1
					}
					if wr {
						cl.Send(Req("SET", Key(slot, newToken("wr")), "v"))
						sent++
					}
					if i%50 == 49 {
						cl.WaitReplies(sent, 10*time.Second)
					}
				}
				if !cl.WaitReplies(sent, 20*time.Second) {
					c.Count("incomplete_read_runs", 1)
				}
				cl.Close()
				perNode := map[*Node]int{}
				writesAtReplica := 0
				for _, b := range env.Cl.Log() {
					ci := CmdTable[b.Cmd]
					if ci.Role == RoleRead {
						perNode[b.Node]++
					} else if b.Node != mt.Node {
						writesAtReplica++
					}
				}
				scen := fmt.Sprintf("r=%d/phase=%d", r, phase)
				c.Eval(1)
				c.Distinct(fmt.Sprintf("%s/master=%d/period=%d", scen, m, period))
				dist := map[string]int{}
				starved := 0
				healthy := 0
				for _, rep := range env.T.Replicas(mt.ID) {
					dist[rep.Addr] = perNode[rep.Node]
					if rep.Node == downNode {
						continue
					}
					healthy++
					if perNode[rep.Node] == 0 {
						starved++
					}
				}
				dist["master:"+mt.Addr] = perNode[mt.Node]
				wit := map[string]interface{}{"replicas": r, "reads_sent": n, "reads_per_write_period(0,6=irregular)": period, "cluster_nodes_line_order": env.T.Order, "reads_per_node": dist, "unhealthy_replica": addrOf(downNode)}
				if starved > 0 {
					shape := "all-healthy"
					if phase == 1 && m == 0 {
						shape = "one-replica-down"
					}
					c.Violate(Violation{Class: "healthy-replica-never-used", Shape: shape,
						Detail:  fmt.Sprintf("%d of %d healthy replicas received none of %d reads: %v", starved, healthy, n, dist),
						Witness: wit})
				} else {
					c.Count("runs_with_all_healthy_replicas_used", 1)
				}
				if writesAtReplica > 0 {
					c.Violate(Violation{Class: "write-at-replica", Shape: scen, Detail: fmt.Sprintf("%d writes reached a node other than the master", writesAtReplica), Witness: wit})
				}
				c.Count("reads_observed", int64(n))
				if m == 0 {
					c.Sample(wit)
				}
			}
			if downNode != nil {
				downNode.SetDown(false)
			}
		}
		env.Close()
	}
	c20special(c, rng)
	c20recover(c, rng)
	c.MinEvals = 6
}

// c20special: (1) reads alternating strictly between two masters, (2) a proxy whose
// configured seed servers are replicas, (3) a replica that is loading when first
// discovered and becomes healthy later. Replicas behave like real ones: a read on a
// connection that has not sent READONLY is answered with MOVED to the master.
func c20special(c *Check, rng *rand.Rand) {
	masters, r := 3, 2
	var loadingNode *Node
	env, err := NewEnv(EnvOpt{Masters: masters, Replicas: r, Topo: func(cl *Cluster) *Topo {
		t := EvenTopo(cl, masters, r)
		t.Order = rng.Perm(len(t.Nodes))
		loadingNode = t.Replicas(t.Nodes[2].ID)[1].Node
		loadingNode.Loading = true
		return t
	}, Cfg: ProxyCfg{Servers: []string{"replica-seeds"}}, SeedReplicas: true})
	must(err, "start env")
	defer env.Close()
	masterOf := map[*Node]*TNode{}
	for _, tn := range env.T.Nodes {
		if !tn.Master {
			for _, m := range env.T.Nodes {
				if m.ID == tn.MasterID {
					masterOf[tn.Node] = m
				}
			}
		}
	}
	var mu sync.Mutex
	served := map[*Node]int{}
	env.Cl.SetHandler(func(b *BReq) Action {
		if m := masterOf[b.Node]; m != nil {
			b.Conn.Lock()
			ro := b.Conn.ReadOnly
			b.Conn.Unlock()
			if !ro {
				return Action{Reply: ErrReply(fmt.Sprintf("MOVED %d %s", KeySlot([]byte(FirstKey(b))), m.Addr))}
			}
		}
		if CmdTable[b.Cmd].Role == RoleRead {
			mu.Lock()
			served[b.Node]++
			mu.Unlock()
		}
		return Action{Reply: ValueReply(b)}
	})
	run := func(label string, ms []*TNode, n int, must2 map[*Node]bool) {
		mu.Lock()
		served = map[*Node]int{}
		mu.Unlock()
		cl, err := env.Dial()
		must(err, "dial")
		sent := 0
		for i := 0; i < n; i++ {
			for _, m := range ms {
				slot := m.Slots[0][0] + rng.Intn(m.Slots[0][1]-m.Slots[0][0]+1)
				cl.Send(Req("GET", Key(slot, newToken("al"))))
				sent++
			}
			if i%50 == 49 {
				cl.WaitReplies(sent, 10*time.Second)
			}
		}
		cl.WaitReplies(sent, 20*time.Second)
		cl.Close()
		c.Eval(1)
		c.Distinct("special/" + label)
		dist := map[string]int{}
		starved := 0
		mu.Lock()
		for _, m := range ms {
			for _, rep := range env.T.Replicas(m.ID) {
				dist[rep.Addr] = served[rep.Node]
				if must2 != nil && !must2[rep.Node] {
					continue
				}
				if served[rep.Node] == 0 {
					starved++
				}
			}
		}
		mu.Unlock()
		wit := map[string]interface{}{"scenario": label, "reads_per_master": n, "reads_served_per_replica": dist}
		if starved > 0 {
			c.Violate(Violation{Class: "healthy-replica-never-used", Shape: label, Detail: fmt.Sprintf("%s: %d healthy replicas served none of the reads: %v", label, starved, dist), Witness: wit})
		} else {
			c.Count("runs_with_all_healthy_replicas_used", 1)
		}
		c.Sample(wit)
	}
	healthy := map[*Node]bool{}
	for _, tn := range env.T.Nodes {
		if !tn.Master && tn.Node != loadingNode {
			healthy[tn.Node] = true
		}
	}
	// (2) seeds are replicas: every healthy replica must really serve reads
	run("replica-seed-servers", env.T.Nodes[:3], 300, healthy)
	// (1) strict alternation between two masters (and between three)
	run("alternating-two-masters", env.T.Nodes[:2], 300, healthy)
	run("alternating-three-masters", env.T.Nodes[:3], 300, healthy)
	// (3) the loading replica becomes healthy: within 12 s it serves reads
	time.Sleep(2 * time.Second)
	loadingNode.Loading = false
	ok := false
	for dl := time.Now().Add(12 * time.Second); time.Now().Before(dl) && !ok; {
		time.Sleep(500 * time.Millisecond)
		mu.Lock()
		served = map[*Node]int{}
		mu.Unlock()
		cl, err := env.Dial()
		must(err, "dial")
		m := env.T.Nodes[2]
		for i := 0; i < 60; i++ {
			cl.Send(Req("GET", Key(m.Slots[0][0]+rng.Intn(100), newToken("ld"))))
		}
		cl.WaitReplies(60, 5*time.Second)
		cl.Close()
		mu.Lock()
		ok = served[loadingNode] > 0
		mu.Unlock()
	}
	c.Eval(1)
	c.Distinct("special/replica-healthy-after-loading")
	if !ok {
		c.Violate(Violation{Class: "healthy-replica-never-used", Shape: "replica-healthy-after-loading",
			Detail: "a replica that reported loading when first discovered stopped loading 12 s ago and still serves no reads"})
	} else {
		c.Count("runs_with_all_healthy_replicas_used", 1)
	}
}

func addrOf(n *Node) string {
	if n == nil {
		return ""
	}
	return n.Addr
}

// c20recover: a replica becomes unreachable while reads flow (so that the proxy notices),
// traffic pauses, the replica comes back. Bounded restatement of "every healthy replica
// serves some reads": at the latest 30 s after it is reachable again it must receive
// reads again (the unchanged proxy probes a node every 5 s). Done for a replica the
// proxy was configured with (redis.servers lists replica addresses here) and for one it
// only learned from the topology.
func c20recover(c *Check, rng *rand.Rand) {
	masters, r := 2, 3
	env, err := NewEnv(EnvOpt{Masters: masters, Replicas: r, Topo: func(cl *Cluster) *Topo {
		return EvenTopo(cl, masters, r)
	}, Cfg: ProxyCfg{Servers: []string{"replica-seeds"}, LogLevel: os.Getenv("C20_LOGLEVEL")}, SeedReplicas: true})
	must(err, "start env")
	defer env.Close()
	env.Cl.SetHandler(func(b *BReq) Action { return Action{Reply: ValueReply(b)} })
	seeds := map[string]bool{}
	for _, a := range env.P.Cfg.Servers {
		seeds[a] = true
	}
	reads := func(m *TNode, n int) map[*Node]int {
		env.Cl.ResetLog()
		cl, err := env.Dial()
		must(err, "dial")
		defer cl.Close()
		for i := 0; i < n; i++ {
			slot := m.Slots[0][0] + rng.Intn(m.Slots[0][1]-m.Slots[0][0]+1)
			cl.Send(Req("GET", Key(slot, newToken("rc"))))
			if i%20 == 19 {
				cl.WaitReplies(i+1, 5*time.Second)
			}
		}
		cl.WaitReplies(n, 10*time.Second)
		per := map[*Node]int{}
		for _, b := range env.Cl.Log() {
			if CmdTable[b.Cmd].Role == RoleRead {
				per[b.Node]++
			}
		}
		return per
	}
	for mi := 0; mi < masters && env.P.Alive(); mi++ {
		m := env.T.Nodes[mi]
		reps := env.T.Replicas(m.ID)
		victim := reps[rng.Intn(len(reps))]
		kind := "discovered-replica"
		if seeds[victim.Addr] {
			kind = "configured-seed-replica"
		}
		if before := reads(m, 200); before[victim.Node] == 0 {
			c.Count("recover_victim_unused_before(read-spread subject)", 1)
			continue
		}
		victim.Node.SetDown(true)
		// the proxy meets the dead replica: reads one at a time until one of them fails
		// (the dead replica was picked for the request and for its retry), then silence -
		// the proxy's last experience with the replica is a failure
		failed := false
		cl, err := env.Dial()
		must(err, "dial")
		for i := 0; i < 600 && !failed; i++ {
			slot := m.Slots[0][0] + rng.Intn(m.Slots[0][1]-m.Slots[0][0]+1)
			cl.Send(Req("GET", Key(slot, newToken("rc"))))
			if !cl.WaitReplies(i+1, 5*time.Second) {
				break
			}
			failed = cl.Snapshot().Replies[i].Val.Kind == '-'
		}
		cl.Close()
		if !failed {
			c.Count("recover_no_read_failed_while_down", 1)
		}
		time.Sleep(6 * time.Second)
		victim.Node.SetDown(false)
		time.Sleep(12 * time.Second)
		got := 0
		total := 0
		for round := 0; round < 10 && got == 0; round++ {
			per := reads(m, 300)
			got += per[victim.Node]
			total += 300
			if got == 0 {
				time.Sleep(2 * time.Second)
			}
		}
		c.Eval(1)
		c.Distinct("recover/" + kind)
		if got == 0 {
			c.Violate(Violation{Class: "healthy-replica-never-used", Shape: "recovered/" + kind,
				Detail:  fmt.Sprintf("replica %s was unreachable for 6 s while reads flowed; reachable again for more than 30 s it received none of %d reads for its master's slots", victim.Addr, total),
				Witness: map[string]interface{}{"replica": victim.Addr, "configured_servers": env.P.Cfg.Servers, "master": m.Addr}})
		} else {
			c.Count("recovered_replicas_serving_again", 1)
		}
	}
}
