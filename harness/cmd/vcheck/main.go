package main

import (
	"fmt"
	"math/rand"
	"os"
	"os/signal"
	"sort"
	"syscall"
	"time"

	. "vcheck/lib"
)

type checkFn func(c *Check, rng *rand.Rand)

type checkDef struct {
	level string
	fn    checkFn
}

var checks = map[string]checkDef{}

func register(id, level string, fn checkFn) { checks[id] = checkDef{level, fn} }

func usage() {
	var ids []string
	for k := range checks {
		ids = append(ids, k)
	}
	sort.Strings(ids)
	fmt.Fprintf(os.Stderr, "usage: vcheck run <id> [--tier quick|thorough]\n       ids: %v\n", ids)
	os.Exit(2)
}

func main() {
	if len(os.Args) < 3 || os.Args[1] != "run" {
		usage()
	}
	id := os.Args[2]
	for i := 3; i < len(os.Args); i++ {
		if os.Args[i] == "--tier" && i+1 < len(os.Args) {
			os.Setenv("VERIF_TIER", os.Args[i+1])
			i++
		}
	}
	def, ok := checks[id]
	if !ok {
		usage()
	}
	if err := SelfCheckSlot(); err != nil {
		fmt.Printf("INCONCLUSIVE property=%s reference self-check failed: %v\n", id, err)
		os.Exit(2)
	}
	c := NewCheck(id, def.level)
	curCheck = c
	rng := rand.New(rand.NewSource(c.Seed*7919 + 17))
	sig := make(chan os.Signal, 1)
	signal.Notify(sig, syscall.SIGINT, syscall.SIGTERM)
	go func() {
		<-sig
		Cleanup()
		os.Exit(2)
	}()
	OnUnresponsive = func(e *Env, err error) {
		c.Violate(Violation{Class: "proxy-unresponsive", Shape: "witness-connection",
			Detail:  "the proxy process is alive but a connection that only ever sent PING got no answer for 15 s: the event loop no longer serves its clients (" + err.Error() + ")",
			Witness: map[string]interface{}{"output_tail": e.P.OutputTail(1500)}})
	}
	// A tree that violates the property usually makes every further case wait for its
	// watchdogs. Once violations have been collected the run is given a few more minutes
	// (other classes may still show up) and is then ended with what it has: the verdict
	// cannot change any more, and the caller's own time limit must not be what ends it.
	go func() {
		var first time.Time
		grace := 3 * time.Minute
		if c.Thorough() {
			grace = 20 * time.Minute
		}
		for {
			time.Sleep(time.Second)
			if c.NViol() == 0 {
				continue
			}
			if first.IsZero() {
				first = time.Now()
			}
			if time.Since(first) > grace {
				c.Count("run_ended_early_after_violations", 1)
				Cleanup()
				c.Finish()
			}
		}
	}()
	func() {
		defer func() {
			if r := recover(); r != nil {
				if ie, ok := r.(infraErr); ok {
					c.Inconclusive("%s", string(ie))
					return
				}
				Cleanup()
				panic(r)
			}
		}()
		def.fn(c, rng)
	}()
	Cleanup()
	c.Finish()
}

// infraErr aborts a check as inconclusive (harness infrastructure failed).
type infraErr string

func infra(format string, a ...interface{}) {
	panic(infraErr(fmt.Sprintf(format, a...)))
}

var curCheck *Check

func must(err error, what string) {
	if err != nil {
		if nr, ok := err.(*NotReadyError); ok && curCheck != nil {
			// On the unchanged tree the proxy serves 2-3 s after start. A proxy that is
			// alive but never starts to route (its table never loads, its backend
			// handshakes never complete) is a behavioural failure, not harness trouble.
			curCheck.Violate(Violation{Class: "proxy-never-serves", Shape: "at-startup",
				Detail:  what + ": the proxy process is alive but did not start routing requests within 20 s of start (nominal 2-3 s)",
				Witness: map[string]interface{}{"stderr_tail": nr.Msg}})
		}
		infra("%s: %v", what, err)
	}
}
