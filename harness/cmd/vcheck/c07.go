package main

import (
	"bytes"
	"fmt"
	"math/rand"
	"sync"
	"time"

	. "vcheck/lib"
)

func init() { register("C07", "exploration", runC07) }

type c07req struct {
	kind   string
	keys   [][]byte
	vals   map[string][]byte // MGET: value per key (nil = absent)
	raw    []byte
	slots  []int // distinct slots in order of first appearance
	groups map[int][]int
	// per fragment behaviour
	delCount map[int]int64
	msetRep  map[int][]byte
	override map[int][]byte // slot -> reply bytes replacing the normal fragment reply
}

func permutations(n int) [][]int {
	var out [][]int
	p := make([]int, n)
	for i := range p {
		p[i] = i
	}
	var rec func(k int)
	rec = func(k int) {
		if k == n {
			out = append(out, append([]int(nil), p...))
			return
		}
		for i := k; i < n; i++ {
			p[k], p[i] = p[i], p[k]
			rec(k + 1)
			p[k], p[i] = p[i], p[k]
		}
	}
	rec(0)
	return out
}

func c07value(rng *rand.Rand, big bool) []byte {
	switch rng.Intn(9) {
	case 0:
		return nil // absent
	case 1:
		return []byte{}
	case 2:
		return []byte("line1\r\nline2\n")
	case 3:
		return []byte("$5\r\nhello\r\n")
	case 4:
		b := make([]byte, 1+rng.Intn(40))
		rng.Read(b)
		return b
	case 5:
		if big {
			b := make([]byte, 200000+rng.Intn(800000))
			rng.Read(b)
			return b
		}
		fallthrough
	default:
		return []byte(fmt.Sprintf("value-%d", rng.Intn(1000000)))
	}
}

// c07gen builds a request whose keys fall into exactly nfrag distinct slots.
func c07gen(rng *rand.Rand, kind string, nfrag, nkeys int, big bool) *c07req {
	slots := rng.Perm(16384)[:nfrag]
	if rng.Intn(4) == 0 {
		// the ends of the slot space (slot 0 is also the zero value of every slot variable)
		b := []int{0, 16383}[rng.Intn(2)]
		dup := false
		for _, s := range slots {
			dup = dup || s == b
		}
		if !dup {
			slots[rng.Intn(nfrag)] = b
		}
	}
	return c07genSlots(rng, kind, slots, nkeys, big)
}

// c07genNodes is c07gen with every fragment on a different node, none of them on avoid.
func c07genNodes(rng *rand.Rand, env *Env, kind string, nfrag, nkeys int, avoid *Node) *c07req {
	var slots []int
	used := map[*Node]bool{avoid: true}
	for tries := 0; len(slots) < nfrag && tries < 100000; tries++ {
		s := rng.Intn(16384)
		o := env.T.Owner(s)
		if o == nil || used[o.Node] {
			continue
		}
		used[o.Node] = true
		slots = append(slots, s)
	}
	return c07genSlots(rng, kind, slots, nkeys, false)
}

func c07genSlots(rng *rand.Rand, kind string, slots []int, nkeys int, big bool) *c07req {
	nfrag := len(slots)
	tok := newToken("g")
	r := &c07req{kind: kind, vals: map[string][]byte{}, groups: map[int][]int{}, delCount: map[int]int64{}, msetRep: map[int][]byte{}}
	var mvals [][]byte
	for i := 0; i < nkeys; i++ {
		var s int
		if i < nfrag {
			s = slots[i]
		} else {
			s = slots[rng.Intn(nfrag)]
		}
		var k []byte
		if i >= nfrag && rng.Intn(6) == 0 {
			k = r.keys[rng.Intn(i)] // duplicate
		} else {
			k = []byte(Key(s, fmt.Sprintf("%s.%d", tok, i)))
		}
		r.keys = append(r.keys, k)
		if _, ok := r.vals[string(k)]; !ok {
			r.vals[string(k)] = c07value(rng, big)
		}
		mvals = append(mvals, []byte(fmt.Sprintf("mv%d\r\n", i)))
	}
	rng.Shuffle(len(r.keys), func(i, j int) { r.keys[i], r.keys[j] = r.keys[j], r.keys[i] })
	if rng.Intn(2) == 0 {
		// a key of slot 0 / 16383, when there is one, leads the request
		for i, k := range r.keys {
			if ks := KeySlot(k); ks == 0 || ks == 16383 {
				r.keys[0], r.keys[i] = r.keys[i], r.keys[0]
				if kind == "mset" {
					mvals[0], mvals[i] = mvals[i], mvals[0]
				}
				break
			}
		}
	}
	r.slots, r.groups = SplitKeys(r.keys)
	args := [][]byte{randCase(rng, kind)}
	for i, k := range r.keys {
		args = append(args, k)
		if kind == "mset" {
			args = append(args, mvals[i])
		}
	}
	r.raw = EncodeReq(args...)
	for _, s := range r.slots {
		r.delCount[s] = int64(rng.Intn(len(r.groups[s]) + 1))
		r.msetRep[s] = StatusReply("OK")
	}
	return r
}

// expected is the reference merger over what the nodes are scripted to return.
func (r *c07req) expected() (exact []byte, notOK bool) {
	switch r.kind {
	case "mget":
		el := make([][]byte, len(r.keys))
		for i, k := range r.keys {
			if v := r.vals[string(k)]; v != nil {
				el[i] = BulkReply(v)
			} else {
				el[i] = NullBulk()
			}
		}
		return ArrayReply(el...), false
	case "del":
		var sum int64
		for _, s := range r.slots {
			sum += r.delCount[s]
		}
		return IntReply(sum), false
	default:
		for _, s := range r.slots {
			if !bytes.Equal(r.msetRep[s], StatusReply("OK")) {
				return nil, true
			}
		}
		return StatusReply("OK"), false
	}
}

func (r *c07req) install(script *Script, gated bool) []*Gate {
	var gates []*Gate
	for _, s := range r.slots {
		s := s
		first := string(r.keys[r.groups[s][0]])
		p := script.Plan(first)
		if gated {
			p.Gate = NewGate()
			gates = append(gates, p.Gate)
		}
		p.Act = func(b *BReq) Action {
			if ov, ok := r.override[s]; ok {
				return Action{Reply: ov}
			}
			switch r.kind {
			case "mget":
				el := make([][]byte, 0, len(b.Args)-1)
				for _, k := range b.Args[1:] {
					if v := r.vals[string(k)]; v != nil {
						el = append(el, BulkReply(v))
					} else {
						el = append(el, NullBulk())
					}
				}
				return Action{Reply: ArrayReply(el...)}
			case "del":
				return Action{Reply: IntReply(r.delCount[s])}
			}
			return Action{Reply: r.msetRep[s]}
		}
	}
	return gates
}

func (r *c07req) forget(script *Script) {
	for _, s := range r.slots {
		script.Forget(string(r.keys[r.groups[s][0]]))
	}
}

func runC07(c *Check, rng *rand.Rand) {
	c.Rule = "split MGET/DEL/MSET with keys in exactly F distinct slots; for F <= Fmax EVERY arrival permutation of the F fragment replies (gates opened one by one with an event-loop barrier in between); larger requests (up to thousands of keys, hundreds of slots) under reverse / node-by-node / random orders; values empty, CR/LF, binary, ~1MB, absent, duplicates; reply compared with a reference merger over what the nodes returned; distinct = (kind, key count, fragment count, permutation)"
	c.Assumptions = []string{
		"arrival order is the order in which the fake nodes write their replies; a barrier (8 event-loop rounds) between two writes makes the proxy process them in that order",
		"MSET with a non-OK fragment reply: any reply other than +OK is accepted (which error is C11's subject)",
	}
	env, err := NewEnv(EnvOpt{Masters: 8})
	must(err, "start env")
	defer env.Close()
	script := NewScript()
	env.Cl.SetHandler(script.Handler)
	fmax := c.Pick(4, 6)
	lists := c.Pick(6, 40)
	type job struct {
		r    *c07req
		perm []int
		mode string
	}
	var jobs []job
	kinds := []string{"mget", "del", "mset"}
	for f := 1; f <= fmax; f++ {
		perms := permutations(f)
		nl := lists
		if f >= 5 {
			nl = lists / 8
			if nl < 1 {
				nl = 1
			}
		}
		for l := 0; l < nl; l++ {
			kind := kinds[(l+f)%3]
			nkeys := f + rng.Intn(2*f+1)
			for _, p := range perms {
				jobs = append(jobs, job{c07gen(rng, kind, f, nkeys, false), p, "perm"})
			}
		}
	}
	// MSET with one non-OK fragment, every position x every order (F<=3)
	for f := 2; f <= 3; f++ {
		for bad := 0; bad < f; bad++ {
			for _, p := range permutations(f) {
				r := c07gen(rng, "mset", f, f+rng.Intn(3), false)
				r.msetRep[r.slots[bad]] = [][]byte{ErrReply("OOM command not allowed when used memory > 'maxmemory'."), StatusReply("QUEUED"), ErrReply("READONLY You can't write against a read only replica.")}[rng.Intn(3)]
				jobs = append(jobs, job{r, p, "perm"})
			}
		}
	}
	// large requests, adversarial orders
	for i := 0; i < c.Pick(40, 2000); i++ {
		nf := 2 + rng.Intn(c.Pick(60, 400))
		nk := nf + rng.Intn(c.Pick(300, 3000))
		mode := []string{"reverse", "random", "bynode", "fifo"}[rng.Intn(4)]
		if i%10 == 0 { // ~1MB values: few keys so that the merged reply stays below the 6 MiB limit
			nf = 2 + rng.Intn(4)
			nk = nf + rng.Intn(4)
		}
		jobs = append(jobs, job{c07gen(rng, kinds[rng.Intn(3)], nf, nk, i%10 == 0), nil, mode})
	}
	lanes := 4
	var wg sync.WaitGroup
	ch := make(chan job, len(jobs))
	for _, j := range jobs {
		ch <- j
	}
	close(ch)
	var rmu sync.Mutex
	for l := 0; l < lanes; l++ {
		wg.Add(1)
		go func(l int) {
			defer wg.Done()
			defer func() {
				if r := recover(); r != nil {
					if ie, ok := r.(infraErr); ok {
						c.Inconclusive("%s", string(ie))
						return
					}
					panic(r)
				}
			}()
			cl, err := env.Dial()
			must(err, "dial")
			defer func() { cl.Close() }()
			got := 0
			lrng := rand.New(rand.NewSource(c.Seed*50 + int64(l)))
			for j := range ch {
				if !env.P.Alive() {
					return
				}
				r := j.r
				gates := r.install(script, true)
				cl.Send(r.raw)
				if err := env.Barrier(); err != nil {
					if !env.P.Alive() {
						c.Violate(Violation{Class: "proxy-died", Shape: r.kind, Detail: env.P.PanicLine(), Witness: map[string]interface{}{"request": Q(r.raw)}})
						return
					}
					infra("barrier: %v", err)
				}
				order := j.perm
				if order == nil {
					order = make([]int, len(gates))
					for i := range order {
						order[i] = i
					}
					switch j.mode {
					case "reverse":
						for a, b := 0, len(order)-1; a < b; a, b = a+1, b-1 {
							order[a], order[b] = order[b], order[a]
						}
					case "random":
						rmu.Lock()
						lrng.Shuffle(len(order), func(a, b int) { order[a], order[b] = order[b], order[a] })
						rmu.Unlock()
					case "bynode":
						// group by owning node
						byNode := map[int][]int{}
						var nodes []int
						for i, s := range r.slots {
							n := env.T.Owner(s).Node.Index
							if _, ok := byNode[n]; !ok {
								nodes = append(nodes, n)
							}
							byNode[n] = append(byNode[n], i)
						}
						order = order[:0]
						for k := len(nodes) - 1; k >= 0; k-- {
							order = append(order, byNode[nodes[k]]...)
						}
					}
				}
				for i, gi := range order {
					gates[gi].Open()
					if j.perm != nil || i < 3 {
						env.Barrier()
					}
				}
				got++
				ok := cl.WaitReplies(got, 10*time.Second)
				if !ok {
					env.Barrier()
					time.Sleep(time.Second)
					env.Barrier()
					ok = cl.WaitReplies(got, time.Second)
				}
				exp, notOK := r.expected()
				shape := fmt.Sprintf("%s/frags=%d", r.kind, fragBucket(len(r.slots)))
				wit := map[string]interface{}{"request": Q(r.raw), "fragments": len(r.slots), "arrival_order": order, "expected": Q(exp)}
				c.Eval(1)
				if len(r.slots) >= 2 {
					c.Distinct(fmt.Sprintf("%s/%d/%d/%v", r.kind, len(r.keys), len(r.slots), orderSig(order)))
				}
				if !ok {
					if !env.P.Alive() {
						c.Violate(Violation{Class: "proxy-died", Shape: shape, Detail: env.P.PanicLine(), Witness: wit})
						return
					}
					c.Violate(Violation{Class: "no-merged-reply", Shape: shape, Detail: "no reply after every fragment was answered and the barrier passed", Witness: wit})
					cl.Close()
					cl, err = env.Dial()
					must(err, "redial")
					got = 0
					r.forget(script)
					continue
				}
				v := cl.Snapshot().Replies[got-1].Val
				if notOK {
					if bytes.Equal(v.Raw, StatusReply("OK")) {
						c.Violate(Violation{Class: "mset-ok-despite-failed-fragment", Shape: shape, Detail: "split MSET answered +OK although one node did not answer OK", Witness: wit})
					} else {
						c.Count("mset_partial_failure_not_ok", 1)
					}
				} else if !bytes.Equal(v.Raw, exp) {
					wit["got"] = Q(v.Raw)
					c.Violate(Violation{Class: "merged-reply-wrong", Shape: shape, Detail: fmt.Sprintf("merged %s reply differs from the reference merge (first difference at offset %d)", r.kind, firstDiffB(v.Raw, exp)), Witness: wit})
				} else {
					c.Count("merged_replies_verified", 1)
					c.Count("keys_verified", int64(len(r.keys)))
				}
				r.forget(script)
				if j.perm != nil && len(j.perm) == 3 && l == 0 {
					c.Sample(map[string]interface{}{"request": Q(r.raw), "arrival_order": order, "expected": Q(exp)})
				}
			}
		}(l)
	}
	wg.Wait()
	// merged replies that have to wait in the client's queue behind a slow earlier request
	// while further split requests of the same and of another client are being merged
	for rd := 0; rd < c.Pick(25, 600) && env.P.Alive(); rd++ {
		cl, err := env.Dial()
		must(err, "dial")
		cl2, err := env.Dial()
		must(err, "dial")
		slowSlot := rng.Intn(16384)
		slowNode := env.T.Owner(slowSlot).Node
		slowTok := Key(slowSlot, newToken("slow"))
		slowGate := NewGate()
		script.Plan(slowTok).Gate = slowGate
		var reqs []*c07req
		var batch []byte
		batch = append(batch, Req("GET", slowTok)...)
		n := 2 + rng.Intn(4)
		for i := 0; i < n; i++ {
			r := c07genNodes(rng, env, kinds[rng.Intn(3)], 2+rng.Intn(3), 3+rng.Intn(6), slowNode)
			r.install(script, false)
			reqs = append(reqs, r)
			batch = append(batch, r.raw...)
		}
		cl.Send(batch)
		env.Barrier()
		// another client's split requests are merged while the first client's results wait
		var reqs2 []*c07req
		var batch2 []byte
		for i := 0; i < 2; i++ {
			r := c07genNodes(rng, env, kinds[rng.Intn(3)], 2+rng.Intn(3), 3+rng.Intn(6), slowNode)
			r.install(script, false)
			reqs2 = append(reqs2, r)
			batch2 = append(batch2, r.raw...)
		}
		cl2.Send(batch2)
		cl2.WaitReplies(len(reqs2), 5*time.Second)
		env.Barrier()
		slowGate.Open()
		ok := cl.WaitReplies(1+n, 5*time.Second)
		if !ok {
			env.Barrier()
			time.Sleep(time.Second)
			env.Barrier()
		}
		check := func(k *Client, rs []*c07req, off int, who string) {
			s := k.Snapshot()
			for i, r := range rs {
				c.Eval(1)
				c.Distinct(fmt.Sprintf("queued/%s/%d/%d", r.kind, len(r.keys), len(r.slots)))
				if off+i >= len(s.Replies) {
					c.Violate(Violation{Class: "no-merged-reply", Shape: "queued-behind-slow-request", Detail: who + ": merged reply missing", Witness: map[string]interface{}{"request": Q(r.raw)}})
					return
				}
				exp, _ := r.expected()
				if got := s.Replies[off+i].Val.Raw; !bytes.Equal(got, exp) {
					c.Violate(Violation{Class: "merged-reply-wrong", Shape: "queued-behind-slow-request",
						Detail:  fmt.Sprintf("%s: merged %s reply that waited in the queue differs from the reference merge (first difference at offset %d)", who, r.kind, firstDiffB(got, exp)),
						Witness: map[string]interface{}{"request": Q(r.raw), "expected": Q(exp), "got": Q(got)}})
					return
				}
				c.Count("merged_replies_verified", 1)
			}
		}
		check(cl, reqs, 1, "client behind a slow GET")
		check(cl2, reqs2, 0, "second client")
		for _, r := range append(reqs, reqs2...) {
			r.forget(script)
		}
		script.Forget(slowTok)
		cl.Close()
		cl2.Close()
	}
	// clients that go away with a split request in flight: the late fragment replies of
	// their abandoned requests arrive while other clients' split requests (decoded into
	// recycled message objects) are being merged
	for rd := 0; rd < c.Pick(30, 600) && env.P.Alive(); rd++ {
		slowSlot := rng.Intn(16384)
		slowNode := env.T.Owner(slowSlot).Node
		var goners []*Client
		var lateGates []*Gate
		var abandoned []*c07req
		for a := 0; a < 1+rng.Intn(4); a++ {
			ca, err := env.Dial()
			must(err, "dial")
			// every fragment on a different node, one of them on the slow node and gated
			// (the survivors below stay away from the slow node: a node answers a connection
			// in order, so nothing of theirs may queue behind the held-back fragments)
			var slots []int
			used := map[*Node]bool{}
			for tries := 0; len(slots) < 2+rng.Intn(3) && tries < 100000; tries++ {
				sl := rng.Intn(16384)
				o := env.T.Owner(sl)
				if o == nil || used[o.Node] || (len(slots) == 0) != (o.Node == slowNode) {
					continue
				}
				used[o.Node] = true
				slots = append(slots, sl)
			}
			r := c07genSlots(rng, kinds[rng.Intn(3)], slots, len(slots)+rng.Intn(4), false)
			gs := r.install(script, true)
			for i, g := range gs {
				if env.T.Owner(r.slots[i]).Node == slowNode {
					lateGates = append(lateGates, g) // answered only after the client is gone
				} else {
					g.Open()
				}
			}
			ca.Send(r.raw)
			goners = append(goners, ca)
			abandoned = append(abandoned, r)
		}
		env.Barrier()
		for _, ca := range goners {
			ca.Close()
		}
		env.Barrier()
		// the survivors: split requests whose fragments are held back as well
		nb := 1 + rng.Intn(3)
		type surv struct {
			cl    *Client
			reqs  []*c07req
			gates [][]*Gate
		}
		var ss []*surv
		for b := 0; b < nb; b++ {
			cb, err := env.Dial()
			must(err, "dial")
			sv := &surv{cl: cb}
			var batch []byte
			for i := 0; i < 1+rng.Intn(3); i++ {
				r := c07genNodes(rng, env, kinds[rng.Intn(3)], 2+rng.Intn(3), 3+rng.Intn(5), slowNode)
				sv.gates = append(sv.gates, r.install(script, true))
				sv.reqs = append(sv.reqs, r)
				batch = append(batch, r.raw...)
			}
			cb.Send(batch)
			ss = append(ss, sv)
		}
		env.Barrier()
		// a part of each survivor's fragments is answered, then the late replies for the
		// dead clients' requests arrive, then the rest
		for _, sv := range ss {
			for _, gs := range sv.gates {
				gs[len(gs)-1].Open()
			}
		}
		env.Barrier()
		for _, g := range lateGates {
			g.Open()
		}
		env.Barrier()
		for _, sv := range ss {
			for _, gs := range sv.gates {
				for _, g := range gs[:len(gs)-1] {
					g.Open()
				}
			}
		}
		for _, sv := range ss {
			ok := sv.cl.WaitReplies(len(sv.reqs), 5*time.Second)
			if !ok {
				env.Barrier()
				time.Sleep(time.Second)
				env.Barrier()
			}
			snap := sv.cl.Snapshot()
			for i, r := range sv.reqs {
				c.Eval(1)
				c.Distinct(fmt.Sprintf("after-disconnect/%s/%d/%d", r.kind, len(r.keys), len(r.slots)))
				if !env.P.Alive() {
					c.Violate(Violation{Class: "proxy-died", Shape: "after-client-disconnect", Detail: env.P.PanicLine(), Witness: map[string]interface{}{"request": Q(r.raw), "stderr": env.P.OutputTail(1500)}})
					break
				}
				if i >= len(snap.Replies) {
					c.Violate(Violation{Class: "no-merged-reply", Shape: "after-client-disconnect", Detail: "merged reply missing after other clients went away with split requests in flight", Witness: map[string]interface{}{"request": Q(r.raw), "clients_gone": len(goners)}})
					break
				}
				exp, _ := r.expected()
				if got := snap.Replies[i].Val.Raw; !bytes.Equal(got, exp) {
					c.Violate(Violation{Class: "merged-reply-wrong", Shape: "after-client-disconnect",
						Detail:  fmt.Sprintf("merged %s reply differs from the reference merge (first difference at offset %d) after the late fragment replies of %d disconnected clients arrived", r.kind, firstDiffB(got, exp), len(goners)),
						Witness: map[string]interface{}{"request": Q(r.raw), "expected": Q(exp), "got": Q(got)}})
					break
				}
				c.Count("merged_replies_verified", 1)
			}
			sv.cl.Close()
		}
		for _, r := range abandoned {
			r.forget(script)
		}
		for _, sv := range ss {
			for _, r := range sv.reqs {
				r.forget(script)
			}
		}
	}
	c.SetExtra("exhaustive_permutations_up_to_fragments", fmax)
	c.MinEvals = 100
}

func fragBucket(n int) int {
	switch {
	case n <= 6:
		return n
	case n <= 32:
		return 32
	}
	return 400
}

func orderSig(o []int) string {
	if len(o) <= 6 {
		return fmt.Sprint(o)
	}
	return fmt.Sprintf("%d..%d(%d)", o[0], o[len(o)-1], len(o))
}
