package main

import (
	"math/rand"
	"time"

	. "vcheck/lib"
)

func init() { register("C05", "exploration", runC05) }

func runC05(c *Check, rng *rand.Rand) {
	c.Rule = "differential: rcproxy hashkit.Hash vs bit-by-bit CRC16/XMODEM + hash-tag rule; exhaustive over all strings of length <= L on the alphabet {'{','}','a','b',NUL} and all 1- and 2-byte strings, plus random brace-heavy binary keys; distinct = distinct brace arrangements (shape) seen; plus the decoder life-cycle monitor: histories of requests on successive connections through the real client decoder (delivery in pieces, abandoned and invalid requests, requests over the size limit, every answered message returned to MsgPool and decoded into again; keys up to 3 KB, hash tags beyond byte 256, bytes >= 0x80, slots 0 and 16383): the slot every fragment is filed under must equal the reference slot of its first key"
	c.Assumptions = []string{"reference self-checked on published vectors (123456789 -> 0x31C3, foo -> 12182, {user1000}.following -> 3443)"}
	exh, n, life := "7", "2000000", "60000"
	if c.Thorough() {
		exh, n, life = "9", "200000000", "3000000"
	}
	r := runE2(c, "", "c05", 30*time.Minute, "--exh", exh, "--n", n, "--workers", "16", "--life", life)
	if r != nil {
		c.DistinctN(r.Distinct)
		c.SetExtra("exhaustive", true)
		c.SetExtra("exhaustive_scope", "all strings of length <= "+exh+" over {,},a,b,NUL; all 1- and 2-byte strings")
	}
	if c.Thorough() {
		if r2 := runE2(c, "race", "c05", 30*time.Minute, "--exh", "7", "--n", "2000000", "--workers", "16", "--life", "200000"); r2 != nil {
			c.DistinctN(0)
		}
	}
}
