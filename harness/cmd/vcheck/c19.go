package main

import (
	"math/rand"
	"time"

	. "vcheck/lib"
)

func init() { register("C19", "exploration", runC19) }

func runC19(c *Check, rng *rand.Rand) {
	c.Rule = "random operation sequences (1..300 ops, sizes biased to 0,1,cap-1,cap,cap+1,4096,static threshold) on ring, pooled elastic ring, linked-list and elastic buffers, each mirrored by an ideal byte FIFO; after every op results, reported lengths and full content must agree; distinct = (buffer kind, sequence length)"
	c.Assumptions = []string{
		"linked-list/elastic Peek(n) may return whole nodes beyond n: required is a prefix of the queue of at least min(n, buffered) bytes",
		"ReadFrom/WriteTo are not in the property's operation list and not on the proxy's I/O path; not exercised",
		"memory safety of the unsafe byteslice pool is watched by checkptr (-race build) and ASan builds of the same workload; a fatal report kills the child and is a violation",
	}
	n := "40000"
	if c.Thorough() {
		n = "600000"
	}
	r := runE2(c, "", "c19", 40*time.Minute, "--n", n, "--workers", "16")
	if r != nil {
		c.DistinctN(r.Distinct)
		for _, k := range []string{"ring_wraparounds_observed", "ring_growths_observed", "elastic_spills_observed", "list_partial_node_drains"} {
			if r.Counters[k] < 100 {
				c.Inconclusive("monitor observed too few %s: %d", k, r.Counters[k])
			}
		}
	}
	modes := []string{"race"}
	if c.Thorough() {
		modes = []string{"race", "asan"}
	}
	for _, m := range modes {
		nn := "4000"
		if c.Thorough() {
			nn = "60000"
		}
		if r2 := runE2(c, m, "c19", 40*time.Minute, "--n", nn, "--workers", "16"); r2 != nil {
			c.DistinctN(0)
		}
	}
}
