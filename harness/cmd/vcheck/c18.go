package main

import (
	"fmt"
	"math/rand"
	"net"
	"os"
	"path/filepath"
	"sort"
	"strings"
	"sync"
	"time"

	. "vcheck/lib"
)

func init() { register("C18", "exploration", runC18) }

var c18sources = []string{"127.0.0.2", "127.0.0.3", "127.0.0.4", "127.0.0.5", "127.0.0.6", "127.0.0.7", "127.0.0.8", "127.0.0.9"}

type c18state struct {
	enable bool
	list   map[string]bool
}

func (s c18state) ips() []string {
	var out []string
	for ip := range s.list {
		out = append(out, ip)
	}
	sort.Strings(out)
	return out
}

func (s c18state) admits(ip string) bool { return !s.enable || s.list[ip] }

// admission probes one source address: it connects, immediately sends a
// pipeline and reports what happened.
type c18obs struct {
	served    bool // all replies arrived
	anyByte   bool // any byte of reply
	closed    bool
	atBackend bool
	err       string
}

func c18probe(env *Env, src string, want bool) c18obs {
	var o c18obs
	cl, err := DialClient(env.P.Addr, src, 0)
	if err != nil {
		o.err = err.Error()
		o.closed = true
		return o
	}
	defer cl.Close()
	tok := newToken("wl")
	before := env.Cl.LogLen()
	cl.Send(append(append(Req("GET", tok+".1"), Req("SET", tok+".2", "v")...), Req("PING")...))
	o.served = cl.WaitReplies(3, 1500*time.Millisecond)
	if want && !o.served && !cl.Snapshot().Closed {
		// an admitted connection that is still open is being served slowly (loaded
		// machine), not refused: a refusal closes the connection
		o.served = cl.WaitReplies(3, 12*time.Second)
	}
	s := cl.Snapshot()
	o.anyByte = s.RawTotal > 0
	o.closed = s.Closed
	if !o.served {
		env.Barrier()
	}
	for _, r := range env.Cl.Log()[before:] {
		if strings.HasPrefix(FirstKey(r), tok) {
			o.atBackend = true
		}
	}
	return o
}

func runC18(c *Check, rng *rand.Rand) {
	c.Rule = "clients bound to 127.0.0.2..9 (127.0.0.1 stays listed for the harness's own witness); random histories of whitelist file edits {add, remove, empty the list while it stays enabled (nobody may be served), enable, disable, a version without the enable key, replace all, in-place rewrite, write-temp + rename over the file, rapid double edit}; after each edit the admitted set is polled (each source connects and immediately sends a pipeline) and must equal the file's set, stable for two consecutive polls, within 8 s; lane 0 runs with the delay hook authip.afterEnable armed (a reload takes 250 ms) and issues double edits 0-450 ms apart; rejected = closed without a single reply byte and nothing at any backend; bulk replacements: the list is replaced by one that shares 3 addresses with it (300-1500 loopback addresses leave, 0-1500 others enter) and afterwards EVERY address that left or entered is probed (none that left may still be served, none that entered still refused, 6 s later); distinct = (edit kind, write method, resulting set)"
	c.Assumptions = []string{"'within a few seconds' restated as <= 8 s after the edit completed (file watcher latency is milliseconds)"}
	lanes := c.Pick(2, 8)
	edits := c.Pick(8, 25)
	var wg sync.WaitGroup
	for l := 0; l < lanes; l++ {
		wg.Add(1)
		go func(l int) {
			defer wg.Done()
			defer func() {
				if r := recover(); r != nil {
					if ie, ok := r.(infraErr); ok {
						c.Inconclusive("lane %d: %s", l, string(ie))
						return
					}
					panic(r)
				}
			}()
			c18lane(c, rand.New(rand.NewSource(c.Seed*10+int64(l))), l, edits)
		}(l)
	}
	wg.Wait()
	c18bulk(c, rng)
	c.MinEvals = 8
}

// c18light connects from src, sends one PING and reports whether any reply byte came
// back (served) or the connection was closed without one. undecided: neither within
// the watchdog (counted, never judged).
func c18light(addr, src string) (served, closed bool) {
	d := net.Dialer{Timeout: 5 * time.Second, LocalAddr: &net.TCPAddr{IP: net.ParseIP(src)}}
	cn, err := d.Dial("tcp4", addr)
	if err != nil {
		return false, true
	}
	if tc, ok := cn.(*net.TCPConn); ok {
		tc.SetLinger(0) // no TIME_WAIT: thousands of probes must not occupy local ports
	}
	defer cn.Close()
	cn.Write(Req("PING"))
	cn.SetReadDeadline(time.Now().Add(10 * time.Second))
	var b [16]byte
	n, err := cn.Read(b[:])
	if n > 0 {
		return true, false
	}
	if ne, ok := err.(net.Error); ok && ne.Timeout() {
		return false, false
	}
	return false, true
}

// c18bulk: bulk replacements and removals. The list is replaced again and again by
// a list that shares only three addresses with its predecessor: hundreds of new
// loopback addresses (all inside 127.0.0.0/8, so that the harness can connect from
// every one of them) enter while the previous hundreds leave, or everything but the
// three leaves. After each replacement EVERY removed address is probed. Black box
// probing of a handful of fixed sources cannot see a reload that loses one removal
// out of a thousand; this sweep can.
func c18bulk(c *Check, rng *rand.Rand) {
	short := []string{"127.0.0.1", "127.0.0.6", "127.0.0.8"}
	env, err := NewEnv(EnvOpt{Masters: 3, Cfg: ProxyCfg{WhiteEnable: true, WhiteList: short}})
	must(err, "start env")
	defer env.Close()
	env.Cl.SetHandler(func(b *BReq) Action { return Action{Reply: ValueReply(b)} })
	file := filepath.Join(env.Dir, "authip.yaml")
	methods := []string{"rewrite-in-place", "rename-over"}
	writeList := func(method string, ips []string) {
		content := []byte(WhiteListYAML(true, ips))
		if method == "rename-over" {
			tmp := filepath.Join(env.Dir, ".authip.yaml.tmp")
			must(os.WriteFile(tmp, content, 0o644), "write temp")
			must(os.Rename(tmp, file), "rename")
		} else {
			must(os.WriteFile(file, content, 0o644), "write whitelist")
		}
	}
	var prev []string // the filler block currently in the file
	iters := c.Pick(12, 60)
	for it := 0; it < iters; it++ {
		if !env.P.Alive() {
			c.Violate(Violation{Class: "proxy-died", Shape: "bulk-replacement", Detail: env.P.PanicLine(), Witness: map[string]interface{}{"output_tail": env.P.OutputTail(2000)}})
			return
		}
		n := 200 + rng.Intn(1400)
		if it%3 == 2 {
			n = 0 // everything but the three kept addresses leaves
		}
		blk := 10 + (it*7+int(c.Seed))%200
		fill := make([]string, n)
		for k := range fill {
			fill[k] = fmt.Sprintf("127.%d.%d.%d", blk, 1+k/250, 1+k%250)
		}
		next := append(append([]string(nil), short...), fill...)
		rng.Shuffle(len(next), func(i, j int) { next[i], next[j] = next[j], next[i] })
		method := methods[rng.Intn(2)]
		writeList(method, next)
		c.Eval(1)
		shape := fmt.Sprintf("bulk-replacement/%d-leave/%d-enter/%s", len(prev), n, method)
		c.Distinct(shape)
		// adoption marker (guards the harness only; the verdicts below have their own
		// confirmation delay): a kept address is served, an entering one is served and a
		// leaving one refused, twice in a row
		settled := false
		for i := 0; i < 60 && !settled; i++ {
			ok := 0
			for r := 0; r < 2; r++ {
				good, _ := c18light(env.P.Addr, "127.0.0.6")
				if n > 0 {
					s2, _ := c18light(env.P.Addr, fill[rng.Intn(n)])
					good = good && s2
				}
				if len(prev) > 0 {
					_, c3 := c18light(env.P.Addr, prev[rng.Intn(len(prev))])
					good = good && c3
				}
				if good {
					ok++
				}
			}
			settled = ok == 2
			if !settled {
				time.Sleep(150 * time.Millisecond)
			}
		}
		time.Sleep(500 * time.Millisecond)
		// sweep: every address that left must be refused, every one that entered served
		type res struct {
			src            string
			served, closed bool
		}
		sweep := func(list []string) []res {
			out := make([]res, len(list))
			sem := make(chan struct{}, 24)
			var wg sync.WaitGroup
			for i, src := range list {
				wg.Add(1)
				sem <- struct{}{}
				go func(i int, src string) {
					defer wg.Done()
					defer func() { <-sem }()
					s, cl := c18light(env.P.Addr, src)
					out[i] = res{src, s, cl}
				}(i, src)
			}
			wg.Wait()
			return out
		}
		var stillServed, stillRefused []string
		for _, r := range sweep(prev) {
			if r.served {
				stillServed = append(stillServed, r.src)
			} else if !r.closed {
				c.Count("bulk_probe_undecided", 1)
			}
		}
		for _, r := range sweep(fill) {
			if r.closed {
				stillRefused = append(stillRefused, r.src)
			} else if !r.served {
				c.Count("bulk_probe_undecided", 1)
			}
		}
		c.Count("bulk_addresses_probed", int64(len(prev)+len(fill)))
		if len(stillServed)+len(stillRefused) > 0 {
			// confirm after a few more seconds: a slow reload is not a lost update
			time.Sleep(5 * time.Second)
			var a, b []string
			for _, src := range stillServed {
				if served, _ := c18light(env.P.Addr, src); served {
					a = append(a, src)
				}
			}
			for _, src := range stillRefused {
				if _, closed := c18light(env.P.Addr, src); closed {
					b = append(b, src)
				}
			}
			sort.Strings(a)
			sort.Strings(b)
			if len(a) > 0 {
				c.Violate(Violation{Class: "unlisted-address-served", Shape: shape,
					Detail:  fmt.Sprintf("the list was replaced (%d addresses left, %d entered, 3 stayed); more than 6 s later %d of the addresses that left are still served, e.g. %s", len(prev), n, len(a), a[0]),
					Witness: map[string]interface{}{"still_served": a[:minInt(len(a), 20)], "iteration": it, "file_now_first_lines": WhiteListYAML(true, next[:minInt(len(next), 6)])}})
				return
			}
			if len(b) > 0 {
				c.Violate(Violation{Class: "listed-address-refused", Shape: shape,
					Detail:  fmt.Sprintf("the list was replaced (%d addresses left, %d entered, 3 stayed); more than 6 s later %d of the addresses that entered are still refused, e.g. %s", len(prev), n, len(b), b[0]),
					Witness: map[string]interface{}{"still_refused": b[:minInt(len(b), 20)], "iteration": it}})
				return
			}
		}
		if !settled {
			c.Violate(Violation{Class: "admitted-set-differs-from-file", Shape: shape,
				Detail:  fmt.Sprintf("9 s after the list was replaced (%d left, %d entered) the sampled addresses do not match the file", len(prev), n),
				Witness: map[string]interface{}{"iteration": it}})
			return
		}
		c.Count("bulk_replacements_verified", 1)
		prev = fill
	}
}

func c18lane(c *Check, rng *rand.Rand, lane, edits int) {
	st := c18state{enable: true, list: map[string]bool{"127.0.0.1": true}}
	for _, ip := range c18sources {
		if rng.Intn(2) == 0 {
			st.list[ip] = true
		}
	}
	if lane%2 == 1 {
		st.enable = false
	}
	// lane 0 runs with a delay hook inside the reload (between "enable" and the list):
	// a reload then takes a quarter of a second and later edits land inside it
	hooked := lane == 0
	var envv []string
	if hooked {
		envv = []string{"RCPROXY_VERIF_POINTS=authip.afterEnable=sleep(250)@0.6", fmt.Sprintf("RCPROXY_VERIF_SEED=%d", c.Seed+int64(lane))}
	}
	env, err := NewEnv(EnvOpt{Masters: 3, Cfg: ProxyCfg{WhiteEnable: st.enable, WhiteList: st.ips(), Env: envv}})
	must(err, "start env")
	defer env.Close()
	env.Cl.SetHandler(func(b *BReq) Action { return Action{Reply: ValueReply(b)} })
	file := filepath.Join(env.Dir, "authip.yaml")
	history := []string{fmt.Sprintf("initial enable=%v %v", st.enable, st.ips())}

	verify := func(kind string) bool {
		deadline := time.Now().Add(8 * time.Second)
		okStreak := 0
		rounds := 0
		var lastBad string
		var lastWit map[string]interface{}
		for {
			bad := ""
			for _, src := range c18sources {
				want := st.admits(src)
				o := c18probe(env, src, want)
				switch {
				case want && !o.served:
					bad = fmt.Sprintf("listed address %s is not served (closed=%v bytes=%v %s)", src, o.closed, o.anyByte, o.err)
					lastWit = map[string]interface{}{"source": src, "class": "listed-address-refused"}
				case !want && (o.anyByte || o.atBackend):
					bad = fmt.Sprintf("address %s is not in the list but got reply bytes=%v, request at a backend=%v", src, o.anyByte, o.atBackend)
					lastWit = map[string]interface{}{"source": src, "class": "unlisted-address-served"}
				case !want && !o.closed:
					bad = fmt.Sprintf("address %s is not in the list but its connection was not closed", src)
					lastWit = map[string]interface{}{"source": src, "class": "unlisted-address-not-closed"}
				}
				if bad != "" {
					break
				}
			}
			if bad == "" {
				okStreak++
				if okStreak >= 2 {
					return true
				}
			} else {
				okStreak = 0
				lastBad = bad
			}
			rounds++
			// 8 s and, so that a loaded machine (slow probes) does not shorten the
			// proxy's logical allowance, at least 12 complete polls
			if time.Now().After(deadline) && rounds >= 12 {
				break
			}
			time.Sleep(300 * time.Millisecond)
		}
		if !env.P.Alive() {
			c.Violate(Violation{Class: "proxy-died", Shape: kind, Detail: env.P.PanicLine(), Witness: map[string]interface{}{"history": history, "output_tail": env.P.OutputTail(2000)}})
			return false
		}
		cls := "admitted-set-differs-from-file"
		if lastWit != nil {
			cls = lastWit["class"].(string)
		}
		b, _ := os.ReadFile(file)
		c.Violate(Violation{Class: cls, Shape: kind, Detail: "8 s after the edit: " + lastBad,
			Witness: map[string]interface{}{"history": history, "file_now": string(b), "expected_enable": st.enable, "expected_list": st.ips()}})
		return false
	}

	c.Eval(1)
	c.Distinct(fmt.Sprintf("initial/%v/%v", st.enable, st.ips()))
	if !verify("initial") {
		return
	}
	omitEnable := false // the next write leaves the "enable" key out
	extra := 0          // filler addresses (outside 127.0.0.0/8) added to the next write
	forceDup := false
	write := func(method string) {
		ips := st.ips()
		if (forceDup || rng.Intn(3) == 0) && len(ips) > 1 {
			// the same address listed more than once
			ips = append(ips, ips[rng.Intn(len(ips))], ips[0])
		}
		for k := 0; k < extra; k++ {
			ips = append(ips, fmt.Sprintf("10.%d.%d.%d", k>>16&255, k>>8&255, k&255))
		}
		extra = 0
		content := []byte(WhiteListYAML(st.enable, ips))
		if omitEnable {
			// the file no longer mentions "enable" at all: the whitelist is off
			content = []byte(strings.Replace(string(content), "enable: false\n", "", 1))
			omitEnable = false
		}
		switch method {
		case "rewrite-in-place":
			must(os.WriteFile(file, content, 0o644), "write whitelist")
		case "rename-over":
			tmp := filepath.Join(env.Dir, ".authip.yaml.tmp")
			must(os.WriteFile(tmp, content, 0o644), "write temp")
			must(os.Rename(tmp, file), "rename")
		case "truncate-then-write":
			f, err := os.OpenFile(file, os.O_WRONLY|os.O_TRUNC, 0o644)
			must(err, "open")
			f.Write(content[:len(content)/2])
			f.Sync()
			f.Write(content[len(content)/2:])
			f.Close()
		}
	}
	methods := []string{"rewrite-in-place", "rename-over", "truncate-then-write"}
	for e := 0; e < edits; e++ {
		kind := "double"
		if !hooked || rng.Intn(2) == 0 {
			kind = c18nextKind(rng)
		}
		method := methods[rng.Intn(len(methods))]
		apply := func(k string) {
			switch k {
			case "add":
				st.list[c18sources[rng.Intn(len(c18sources))]] = true
			case "remove":
				for _, ip := range c18sources {
					if st.list[ip] && rng.Intn(2) == 0 {
						delete(st.list, ip)
						break
					}
				}
			case "swap-one": // one address leaves, another one enters: the list keeps its length
				var in, out []string
				for _, ip := range c18sources {
					if st.list[ip] {
						in = append(in, ip)
					} else {
						out = append(out, ip)
					}
				}
				if len(in) > 0 && len(out) > 0 {
					delete(st.list, in[rng.Intn(len(in))])
					st.list[out[rng.Intn(len(out))]] = true
				}
				st.enable = true
			case "enable":
				st.enable = true
			case "empty-enabled": // the list is emptied while the whitelist stays on: nobody is served
				st.list = map[string]bool{}
				st.enable = true
			case "disable":
				st.enable = false
			case "omit-enable": // after an enabled version: a version without the key
				st.enable = false
				omitEnable = true
			case "replace-all":
				st.list = map[string]bool{"127.0.0.1": true}
				for _, ip := range c18sources {
					if rng.Intn(2) == 0 {
						st.list[ip] = true
					}
				}
				st.enable = true
			}
		}
		if kind == "double-long-then-short" {
			// a very long list immediately followed by a short one: the reload of the first
			// is still running when the second edit arrives
			st.enable = true
			apply("add")
			extra = 1500 // (30000, and under load 6000, made a single reload take seconds: the hash map's inserts and deletes are not O(1))
			write("rename-over")
			time.Sleep(time.Duration(3+rng.Intn(15)) * time.Millisecond)
			apply("remove")
			write("rename-over")
			method = "rename-over"
		} else if kind == "remove-one-of-duplicates" {
			st.enable = true
			apply("add")
			apply("add")
			forceDup = true
			write(method)
			time.Sleep(300 * time.Millisecond)
			apply("remove")
			write(method) // one address fewer, but (with the repeated lines) not fewer lines
			forceDup = false
		} else if kind == "omit-enable" {
			// an enabled version with at least one address missing, then a version that does
			// not mention "enable" at all (= off: everyone is served)
			st.enable = true
			apply("remove")
			write(method)
			time.Sleep(300 * time.Millisecond)
			apply("omit-enable")
			write(method)
		} else if kind == "double" {
			apply("add")
			write(methods[rng.Intn(len(methods))])
			if hooked {
				// the second edit arrives before, inside or after the (slowed) reload of the first
				time.Sleep(time.Duration(rng.Intn(450)) * time.Millisecond)
				c.Count("double_edits_with_gap_in_hooked_lane", 1)
			}
			apply("remove")
			write(method)
		} else {
			apply(kind)
			write(method)
		}
		history = append(history, fmt.Sprintf("%s via %s -> enable=%v %v", kind, method, st.enable, st.ips()))
		c.Eval(1)
		c.Distinct(fmt.Sprintf("%s/%s/%v/%v", kind, method, st.enable, st.ips()))
		if !verify(kind + "/" + method) {
			return
		}
		c.Count("edits_verified", 1)
		if e == 1 {
			c.Sample(map[string]interface{}{"history": append([]string(nil), history...)})
		}
	}
}

var (
	c18deckMu sync.Mutex
	c18deck   []string
)

// c18nextKind deals edit kinds from a shared shuffled deck: every kind is used before
// any is repeated, whatever the number of lanes.
func c18nextKind(rng *rand.Rand) string {
	c18deckMu.Lock()
	defer c18deckMu.Unlock()
	if len(c18deck) == 0 {
		c18deck = []string{"add", "remove", "empty-enabled", "swap-one", "enable", "disable", "omit-enable", "enable", "replace-all", "same", "double", "double-long-then-short", "remove-one-of-duplicates", "remove", "swap-one"}
		rng.Shuffle(len(c18deck), func(i, j int) { c18deck[i], c18deck[j] = c18deck[j], c18deck[i] })
	}
	k := c18deck[0]
	c18deck = c18deck[1:]
	return k
}
