package main

import (
	"fmt"
	"math/rand"
	"os"
	"path/filepath"
	"sort"
	"strings"
	"sync"
	"time"

	. "vcheck/lib"
)

func init() { register("C18", "exploration", runC18) }

var c18sources = []string{"127.0.0.2", "127.0.0.3", "127.0.0.4", "127.0.0.5", "127.0.0.6", "127.0.0.7", "127.0.0.8", "127.0.0.9"}

type c18state struct {
	enable bool
	list   map[string]bool
}

func (s c18state) ips() []string {
	var out []string
	for ip := range s.list {
		out = append(out, ip)
	}
	sort.Strings(out)
	return out
}

func (s c18state) admits(ip string) bool { return !s.enable || s.list[ip] }

// admission probes one source address: it connects, immediately sends a
// pipeline and reports what happened.
type c18obs struct {
	served    bool // all replies arrived
	anyByte   bool // any byte of reply
	closed    bool
	atBackend bool
	err       string
}

func c18probe(env *Env, src string) c18obs {
	var o c18obs
	cl, err := DialClient(env.P.Addr, src, 0)
	if err != nil {
		o.err = err.Error()
		o.closed = true
		return o
	}
	defer cl.Close()
	tok := newToken("wl")
	before := env.Cl.LogLen()
	cl.Send(append(append(Req("GET", tok+".1"), Req("SET", tok+".2", "v")...), Req("PING")...))
	o.served = cl.WaitReplies(3, 1500*time.Millisecond)
	s := cl.Snapshot()
	o.anyByte = s.RawTotal > 0
	o.closed = s.Closed
	if !o.served {
		env.Barrier()
	}
	for _, r := range env.Cl.Log()[before:] {
		if strings.HasPrefix(FirstKey(r), tok) {
			o.atBackend = true
		}
	}
	return o
}

func runC18(c *Check, rng *rand.Rand) {
	c.Rule = "clients bound to 127.0.0.2..9 (127.0.0.1 stays listed for the harness's own witness); random histories of whitelist file edits {add, remove, enable, disable, replace all, in-place rewrite, write-temp + rename over the file, rapid double edit}; after each edit the admitted set is polled (each source connects and immediately sends a pipeline) and must equal the file's set, stable for two consecutive polls, within 8 s; rejected = closed without a single reply byte and nothing at any backend; distinct = (edit kind, write method, resulting set)"
	c.Assumptions = []string{"'within a few seconds' restated as <= 8 s after the edit completed (file watcher latency is milliseconds)"}
	lanes := c.Pick(2, 8)
	edits := c.Pick(8, 25)
	var wg sync.WaitGroup
	for l := 0; l < lanes; l++ {
		wg.Add(1)
		go func(l int) {
			defer wg.Done()
			defer func() {
				if r := recover(); r != nil {
					if ie, ok := r.(infraErr); ok {
						c.Inconclusive("lane %d: %s", l, string(ie))
						return
					}
					panic(r)
				}
			}()
			c18lane(c, rand.New(rand.NewSource(c.Seed*10+int64(l))), l, edits)
		}(l)
	}
	wg.Wait()
	c.MinEvals = 8
}

func c18lane(c *Check, rng *rand.Rand, lane, edits int) {
	st := c18state{enable: true, list: map[string]bool{"127.0.0.1": true}}
	for _, ip := range c18sources {
		if rng.Intn(2) == 0 {
			st.list[ip] = true
		}
	}
	if lane%2 == 1 {
		st.enable = false
	}
	env, err := NewEnv(EnvOpt{Masters: 3, Cfg: ProxyCfg{WhiteEnable: st.enable, WhiteList: st.ips()}})
	must(err, "start env")
	defer env.Close()
	env.Cl.SetHandler(func(b *BReq) Action { return Action{Reply: ValueReply(b)} })
	file := filepath.Join(env.Dir, "authip.yaml")
	history := []string{fmt.Sprintf("initial enable=%v %v", st.enable, st.ips())}

	verify := func(kind string) bool {
		deadline := time.Now().Add(8 * time.Second)
		okStreak := 0
		var lastBad string
		var lastWit map[string]interface{}
		for {
			bad := ""
			for _, src := range c18sources {
				o := c18probe(env, src)
				want := st.admits(src)
				switch {
				case want && !o.served:
					bad = fmt.Sprintf("listed address %s is not served (closed=%v bytes=%v %s)", src, o.closed, o.anyByte, o.err)
					lastWit = map[string]interface{}{"source": src, "class": "listed-address-refused"}
				case !want && (o.anyByte || o.atBackend):
					bad = fmt.Sprintf("address %s is not in the list but got reply bytes=%v, request at a backend=%v", src, o.anyByte, o.atBackend)
					lastWit = map[string]interface{}{"source": src, "class": "unlisted-address-served"}
				case !want && !o.closed:
					bad = fmt.Sprintf("address %s is not in the list but its connection was not closed", src)
					lastWit = map[string]interface{}{"source": src, "class": "unlisted-address-not-closed"}
				}
				if bad != "" {
					break
				}
			}
			if bad == "" {
				okStreak++
				if okStreak >= 2 {
					return true
				}
			} else {
				okStreak = 0
				lastBad = bad
			}
			if time.Now().After(deadline) {
				break
			}
			time.Sleep(300 * time.Millisecond)
		}
		if !env.P.Alive() {
			c.Violate(Violation{Class: "proxy-died", Shape: kind, Detail: env.P.PanicLine(), Witness: map[string]interface{}{"history": history}})
			return false
		}
		cls := "admitted-set-differs-from-file"
		if lastWit != nil {
			cls = lastWit["class"].(string)
		}
		b, _ := os.ReadFile(file)
		c.Violate(Violation{Class: cls, Shape: kind, Detail: "8 s after the edit: " + lastBad,
			Witness: map[string]interface{}{"history": history, "file_now": string(b), "expected_enable": st.enable, "expected_list": st.ips()}})
		return false
	}

	c.Eval(1)
	c.Distinct(fmt.Sprintf("initial/%v/%v", st.enable, st.ips()))
	if !verify("initial") {
		return
	}
	extra := 0 // filler addresses (outside 127.0.0.0/8) added to the next write
	forceDup := false
	write := func(method string) {
		ips := st.ips()
		if (forceDup || rng.Intn(3) == 0) && len(ips) > 1 {
			// the same address listed more than once
			ips = append(ips, ips[rng.Intn(len(ips))], ips[0])
		}
		for k := 0; k < extra; k++ {
			ips = append(ips, fmt.Sprintf("10.%d.%d.%d", k>>16&255, k>>8&255, k&255))
		}
		extra = 0
		content := []byte(WhiteListYAML(st.enable, ips))
		switch method {
		case "rewrite-in-place":
			must(os.WriteFile(file, content, 0o644), "write whitelist")
		case "rename-over":
			tmp := filepath.Join(env.Dir, ".authip.yaml.tmp")
			must(os.WriteFile(tmp, content, 0o644), "write temp")
			must(os.Rename(tmp, file), "rename")
		case "truncate-then-write":
			f, err := os.OpenFile(file, os.O_WRONLY|os.O_TRUNC, 0o644)
			must(err, "open")
			f.Write(content[:len(content)/2])
			f.Sync()
			f.Write(content[len(content)/2:])
			f.Close()
		}
	}
	methods := []string{"rewrite-in-place", "rename-over", "truncate-then-write"}
	for e := 0; e < edits; e++ {
		kind := c18nextKind(rng)
		method := methods[rng.Intn(len(methods))]
		apply := func(k string) {
			switch k {
			case "add":
				st.list[c18sources[rng.Intn(len(c18sources))]] = true
			case "remove":
				for _, ip := range c18sources {
					if st.list[ip] && rng.Intn(2) == 0 {
						delete(st.list, ip)
						break
					}
				}
			case "swap-one": // one address leaves, another one enters: the list keeps its length
				var in, out []string
				for _, ip := range c18sources {
					if st.list[ip] {
						in = append(in, ip)
					} else {
						out = append(out, ip)
					}
				}
				if len(in) > 0 && len(out) > 0 {
					delete(st.list, in[rng.Intn(len(in))])
					st.list[out[rng.Intn(len(out))]] = true
				}
				st.enable = true
			case "enable":
				st.enable = true
			case "disable":
				st.enable = false
			case "replace-all":
				st.list = map[string]bool{"127.0.0.1": true}
				for _, ip := range c18sources {
					if rng.Intn(2) == 0 {
						st.list[ip] = true
					}
				}
				st.enable = true
			}
		}
		if kind == "double-long-then-short" {
			// a very long list immediately followed by a short one: the reload of the first
			// is still running when the second edit arrives
			st.enable = true
			apply("add")
			extra = 1500 // (30000, and under load 6000, made a single reload take seconds: the hash map's inserts and deletes are not O(1))
			write("rename-over")
			time.Sleep(time.Duration(3+rng.Intn(15)) * time.Millisecond)
			apply("remove")
			write("rename-over")
			method = "rename-over"
		} else if kind == "remove-one-of-duplicates" {
			st.enable = true
			apply("add")
			apply("add")
			forceDup = true
			write(method)
			time.Sleep(300 * time.Millisecond)
			apply("remove")
			write(method) // one address fewer, but (with the repeated lines) not fewer lines
			forceDup = false
		} else if kind == "double" {
			apply("add")
			write(methods[rng.Intn(len(methods))])
			apply("remove")
			write(method)
		} else {
			apply(kind)
			write(method)
		}
		history = append(history, fmt.Sprintf("%s via %s -> enable=%v %v", kind, method, st.enable, st.ips()))
		c.Eval(1)
		c.Distinct(fmt.Sprintf("%s/%s/%v/%v", kind, method, st.enable, st.ips()))
		if !verify(kind + "/" + method) {
			return
		}
		c.Count("edits_verified", 1)
		if e == 1 {
			c.Sample(map[string]interface{}{"history": append([]string(nil), history...)})
		}
	}
}


var (
	c18deckMu sync.Mutex
	c18deck   []string
)

// c18nextKind deals edit kinds from a shared shuffled deck: every kind is used before
// any is repeated, whatever the number of lanes.
func c18nextKind(rng *rand.Rand) string {
	c18deckMu.Lock()
	defer c18deckMu.Unlock()
	if len(c18deck) == 0 {
		c18deck = []string{"add", "remove", "swap-one", "enable", "disable", "replace-all", "same", "double", "double-long-then-short", "remove-one-of-duplicates", "remove", "swap-one"}
		rng.Shuffle(len(c18deck), func(i, j int) { c18deck[i], c18deck[j] = c18deck[j], c18deck[i] })
	}
	k := c18deck[0]
	c18deck = c18deck[1:]
	return k
}
