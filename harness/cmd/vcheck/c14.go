package main

import (
	"bytes"
	"fmt"
	"math/rand"
	"os"
	"sort"
	"strconv"
	"strings"
	"sync"
	"time"

	. "vcheck/lib"
)

func init() { register("C14", "exploration", runC14) }

// ---- reference interpreter of a CLUSTER NODES description ----

type c14ref struct {
	owner    [16384]*TNode       // master serving the slot (nil = unclaimed)
	lenient  [16384]bool         // slot of a 'fail?' master: either treatment accepted
	replicas map[string][]*TNode // master id -> replicas that may serve reads
	mustNot  map[*Node]bool      // replicas that must not be used
	usable   int
	known    map[string]bool // addresses of usable nodes
}

func nodeUnusable(tn *TNode) (bool, bool) { // (unusable, lenient)
	fl := "," + tn.Flags + ","
	if strings.Contains(fl, ",fail,") || strings.Contains(fl, ",handshake,") || strings.Contains(fl, ",noaddr,") {
		return true, false
	}
	if tn.Addr == "" || strings.HasPrefix(tn.Addr, ":") || tn.Link == "disconnected" || tn.Cols7 {
		return true, false
	}
	if strings.Contains(fl, ",fail?,") {
		return false, true
	}
	return false, false
}

// interpret returns nil when the description is unusable (fewer than three usable nodes).
func c14interpret(t *Topo, prevKnown map[string]bool) *c14ref {
	r := &c14ref{replicas: map[string][]*TNode{}, mustNot: map[*Node]bool{}, known: map[string]bool{}}
	lenientNode := map[*TNode]bool{}
	var usable []*TNode
	for _, tn := range t.Nodes {
		un, len := nodeUnusable(tn)
		if un {
			if tn.Node != nil && !tn.Master {
				r.mustNot[tn.Node] = true
			}
			continue
		}
		if !tn.Master && tn.Node != nil && (tn.Node.Loading || tn.Node.MasterLinkDown) {
			if !prevKnown[tn.Addr] {
				r.mustNot[tn.Node] = true
				continue
			}
			len = true // a known replica that starts loading later: either treatment
		}
		if len {
			lenientNode[tn] = true
		}
		usable = append(usable, tn)
	}
	nclear := 0
	for _, tn := range usable {
		if !lenientNode[tn] {
			nclear++
		}
	}
	if nclear < 3 {
		return nil
	}
	r.usable = nclear
	for _, tn := range usable {
		r.known[tn.Addr] = true
		if tn.Master {
			for _, s := range tn.Slots {
				for i := s[0]; i <= s[1]; i++ {
					r.owner[i] = tn
					r.lenient[i] = lenientNode[tn]
				}
			}
		}
	}
	for _, tn := range usable {
		if !tn.Master {
			r.replicas[tn.MasterID] = append(r.replicas[tn.MasterID], tn)
		}
	}
	return r
}

// ---- topology generator ----

type c14gen struct {
	cl   *Cluster
	rng  *rand.Rand
	cur  *Topo
	idN  int
	pool []*Node // all fake nodes
}

func (g *c14gen) newID() string { g.idN++; return fmt.Sprintf("%040x", 0xdef000+g.idN) }

func cloneTopo(t *Topo) *Topo {
	nt := &Topo{}
	for _, tn := range t.Nodes {
		cp := *tn
		cp.Slots = append([][2]int(nil), tn.Slots...)
		cp.Extra = append([]string(nil), tn.Extra...)
		nt.Nodes = append(nt.Nodes, &cp)
	}
	return nt
}

func (g *c14gen) masters(t *Topo) []*TNode {
	var out []*TNode
	for _, tn := range t.Nodes {
		if tn.Master {
			out = append(out, tn)
		}
	}
	return out
}

func (g *c14gen) unusedNode(t *Topo) *Node {
	used := map[*Node]bool{}
	for _, tn := range t.Nodes {
		used[tn.Node] = true
	}
	for _, n := range g.pool {
		if !used[n] {
			return n
		}
	}
	return nil
}

// mutate returns a new valid topology and the name of the transition.
func (g *c14gen) mutate(kind string) (*Topo, string) {
	if kind == "pad-large" {
		// a range moves, and the text is as long as a cluster's that never forgot its
		// failed nodes: anywhere up to the 163840 bytes the proxy accepts, with the
		// sizes around 99999 / 100000 (one more digit in the bulk header) and the
		// maximum itself preferred
		t, _ := g.mutate("move-range")
		sizes := []int{99999, 100000, 100001, 163840, 163839, 100000 + g.rng.Intn(63840), 20000 + g.rng.Intn(80000)}
		t.PadTo = sizes[g.rng.Intn(len(sizes))]
		return t, "pad-large"
	}
	t := cloneTopo(g.cur)
	ms := g.masters(t)
	rng := g.rng
	pickM := func() *TNode { return ms[rng.Intn(len(ms))] }
	switch kind {
	case "move-range":
		a, b := pickM(), pickM()
		for tries := 0; a == b && tries < 10; tries++ {
			b = pickM()
		}
		if len(a.Slots) > 0 && a != b {
			i := rng.Intn(len(a.Slots))
			r := a.Slots[i]
			if r[1]-r[0] > 4 {
				mid := r[0] + 1 + rng.Intn(r[1]-r[0]-1)
				a.Slots[i] = [2]int{r[0], mid}
				b.Slots = append(b.Slots, [2]int{mid + 1, r[1]})
			} else if len(a.Slots) > 1 {
				a.Slots = append(a.Slots[:i], a.Slots[i+1:]...)
				b.Slots = append(b.Slots, r)
			}
		}
	case "shift-boundary": // two neighbouring ranges of different masters exchange slots, range counts unchanged
		done := false
		for _, a := range ms {
			for ai, ar := range a.Slots {
				for _, b := range ms {
					if b == a || done {
						continue
					}
					for bi, br := range b.Slots {
						if br[0] == ar[1]+1 && ar[1]-ar[0] > 20 {
							k := 1 + rng.Intn(ar[1]-ar[0]-2)
							a.Slots[ai] = [2]int{ar[0], ar[1] - k}
							b.Slots[bi] = [2]int{br[0] - k, br[1]}
							done = true
							break
						}
					}
				}
				if done {
					break
				}
			}
			if done {
				break
			}
		}
	case "single-slot":
		a, b := pickM(), pickM()
		if len(a.Slots) > 0 && a != b {
			i := rng.Intn(len(a.Slots))
			r := a.Slots[i]
			if r[1]-r[0] > 4 {
				s := r[0] + 1 + rng.Intn(r[1]-r[0]-1)
				a.Slots[i] = [2]int{r[0], s - 1}
				a.Slots = append(a.Slots, [2]int{s + 1, r[1]})
				b.Slots = append(b.Slots, [2]int{s, s})
			}
		}
	case "unclaim-range":
		a := pickM()
		if len(a.Slots) > 0 {
			i := rng.Intn(len(a.Slots))
			r := a.Slots[i]
			if r[1]-r[0] > 10 {
				a.Slots[i] = [2]int{r[0], r[1] - 1 - rng.Intn(5)}
			}
		}
	case "add-master":
		if n := g.unusedNode(t); n != nil {
			a := pickM()
			if len(a.Slots) > 0 {
				i := rng.Intn(len(a.Slots))
				r := a.Slots[i]
				if r[1]-r[0] > 4 {
					mid := r[0] + 1 + rng.Intn(r[1]-r[0]-1)
					a.Slots[i] = [2]int{r[0], mid}
					t.Nodes = append(t.Nodes, &TNode{Node: n, ID: g.newID(), Addr: n.Addr, Master: true, Slots: [][2]int{{mid + 1, r[1]}}, CPort: rng.Intn(2) == 0})
				}
			}
		}
	case "add-replica":
		if n := g.unusedNode(t); n != nil {
			t.Nodes = append(t.Nodes, &TNode{Node: n, ID: g.newID(), Addr: n.Addr, MasterID: pickM().ID, CPort: true})
		}
	case "add-replica-loading", "add-replica-linkdown":
		if n := g.unusedNode(t); n != nil {
			if kind == "add-replica-loading" {
				n.Loading = true
			} else {
				n.MasterLinkDown = true
			}
			t.Nodes = append(t.Nodes, &TNode{Node: n, ID: g.newID(), Addr: n.Addr, MasterID: pickM().ID, CPort: true})
		}
	case "remove-replica":
		for i, tn := range t.Nodes {
			if !tn.Master {
				t.Nodes = append(t.Nodes[:i], t.Nodes[i+1:]...)
				break
			}
		}
	case "remove-master":
		if len(ms) > 3 {
			a := pickM()
			b := pickM()
			for b == a {
				b = pickM()
			}
			b.Slots = append(b.Slots, a.Slots...)
			var keep []*TNode
			for _, tn := range t.Nodes {
				if tn == a || (!tn.Master && tn.MasterID == a.ID) {
					continue
				}
				keep = append(keep, tn)
			}
			t.Nodes = keep
		}
	case "failover": // a replica is promoted, its master becomes its replica
		for _, tn := range t.Nodes {
			if !tn.Master {
				var m *TNode
				for _, x := range t.Nodes {
					if x.ID == tn.MasterID {
						m = x
					}
				}
				if m == nil {
					continue
				}
				tn.Master, tn.Slots, tn.MasterID = true, m.Slots, ""
				m.Master, m.Slots, m.MasterID = false, nil, tn.ID
				for _, x := range t.Nodes {
					if !x.Master && x.MasterID == m.ID && x != m {
						x.MasterID = tn.ID
					}
				}
				break
			}
		}
	case "reparent-replica": // address and role unchanged, other master
		for _, tn := range t.Nodes {
			if !tn.Master {
				for _, m := range ms {
					if m.ID != tn.MasterID {
						tn.MasterID = m.ID
						break
					}
				}
				break
			}
		}
	case "change-ids": // same addresses, new node ids
		old := map[string]string{}
		for _, tn := range t.Nodes {
			nid := g.newID()
			old[tn.ID] = nid
			tn.ID = nid
		}
		for _, tn := range t.Nodes {
			if !tn.Master {
				tn.MasterID = old[tn.MasterID]
			}
		}
	case "flag-master-fail":
		if len(ms) > 3 {
			a := pickM()
			switch rng.Intn(4) {
			case 0:
				a.Flags = "fail"
			case 1:
				a.Flags = "handshake"
			case 2:
				a.Link = "disconnected"
			default:
				a.Flags = "noaddr"
				a.Addr = ":0"
			}
		}
	case "flag-replica":
		for _, tn := range t.Nodes {
			if !tn.Master && tn.Flags == "" && tn.Link == "" {
				switch rng.Intn(4) {
				case 0:
					tn.Flags = "fail"
				case 1:
					tn.Flags = "handshake"
				case 2:
					tn.Link = "disconnected"
				default:
					tn.Flags = "noaddr"
					tn.Addr = ":0"
				}
				break
			}
		}
	case "unflag":
		for _, tn := range t.Nodes {
			if tn.Flags != "" || tn.Link != "" {
				tn.Flags, tn.Link = "", ""
				if tn.Node != nil {
					tn.Addr = tn.Node.Addr
				}
			}
		}
	case "migration-markers":
		a, b := pickM(), pickM()
		if len(a.Slots) > 0 && a != b {
			s := a.Slots[0][0]
			a.Extra = []string{fmt.Sprintf("[%d->-%s]", s, b.ID)}
			b.Extra = []string{fmt.Sprintf("[%d-<-%s]", s, a.ID)}
		}
	case "seven-column-line":
		// an extra, truncated line for a node that is not otherwise listed
		if n := g.unusedNode(t); n != nil {
			t.Nodes = append(t.Nodes, &TNode{Node: n, ID: g.newID(), Addr: n.Addr, MasterID: pickM().ID, Cols7: true})
		}
	case "move-node-address": // same node id, new ip:port (role, slots, node count unchanged)
		if n := g.unusedNode(t); n != nil {
			tn := t.Nodes[rng.Intn(len(t.Nodes))]
			if tn.Flags == "" && tn.Link == "" && !tn.Cols7 {
				n.Loading, n.MasterLinkDown = false, false
				tn.Node = n
				tn.Addr = n.Addr
			}
		}
	case "toggle-cport":
		for _, tn := range t.Nodes {
			tn.CPort = !tn.CPort
		}
	}
	// line order as a real node prints it: unrelated to roles
	t.Order = rng.Perm(len(t.Nodes))
	return t, kind
}

var c14valid = []string{"move-node-address", "shift-boundary", "move-range", "single-slot", "unclaim-range", "add-master", "add-replica", "add-replica-loading", "add-replica-linkdown", "remove-replica",
	"remove-master", "failover", "reparent-replica", "change-ids", "flag-master-fail", "flag-replica", "unflag", "migration-markers", "seven-column-line", "toggle-cport", "move-range", "failover", "pad-large"}

// c14delayed arms the delayed-probe variant of the rapid pairs (see DESIGN.md section 14).
var c14delayed = os.Getenv("C14_DELAYED_PROBES") != ""

var (
	c14deckMu sync.Mutex
	c14deck   []string
)

// c14nextKind deals transition kinds from a shared shuffled deck, so that a
// run covers every kind before repeating any (whatever the number of lanes).
func c14nextKind(rng *rand.Rand) string {
	if k := os.Getenv("C14_KIND"); k != "" {
		return k
	}
	c14deckMu.Lock()
	defer c14deckMu.Unlock()
	if len(c14deck) == 0 {
		seen := map[string]bool{}
		for _, k := range c14valid {
			if !seen[k] {
				seen[k] = true
				c14deck = append(c14deck, k)
			}
		}
		rng.Shuffle(len(c14deck), func(i, j int) { c14deck[i], c14deck[j] = c14deck[j], c14deck[i] })
	}
	k := c14deck[0]
	c14deck = c14deck[1:]
	return k
}

// unusable replies
func c14unusable(kind string, cur *Topo) func(n *Node) []byte {
	switch kind {
	case "error":
		return func(*Node) []byte { return ErrReply("ERR This instance has cluster support disabled") }
	case "nil":
		return func(*Node) []byte { return NullBulk() }
	case "ok-status":
		return func(*Node) []byte { return StatusReply("OK") }
	case "empty-bulk":
		return func(*Node) []byte { return BulkReply([]byte{}) }
	case "oversized":
		var pad strings.Builder
		for i := 0; pad.Len() <= 163840; i++ {
			fmt.Fprintf(&pad, "%040x 10.9.9.9:7000@17000 slave,fail %040x 0 0 1 connected\n", i, 1)
		}
		padding := pad.String()
		return func(n *Node) []byte {
			return BulkReply([]byte(cur.Text(n) + padding))
		}
	case "garbage":
		return func(*Node) []byte {
			return BulkReply([]byte("this is not a cluster nodes reply\nat all \x00\x01\x02\n\n"))
		}
	case "two-nodes":
		return func(n *Node) []byte {
			t := &Topo{}
			for _, tn := range cur.Nodes {
				if tn.Master && len(t.Nodes) < 2 {
					cp := *tn
					cp.Slots = [][2]int{{len(t.Nodes) * 8192, len(t.Nodes)*8192 + 8191}}
					t.Nodes = append(t.Nodes, &cp)
				}
			}
			return t.Reply(n)
		}
	}
	return nil
}

var c14unusableKinds = []string{"error", "nil", "ok-status", "empty-bulk", "oversized", "garbage", "two-nodes"}

// ---- probes ----

type c14probe struct {
	env *Env
	cl  *Client
	got int
}

func (p *c14probe) redial() {
	if p.cl != nil {
		p.cl.Close()
	}
	cl, err := p.env.Dial()
	must(err, "dial probe")
	p.cl = cl
	p.got = 0
}

// where sends one command and returns the node that logged it (nil) and the reply.
func (p *c14probe) where(raw []byte, tok string) (*Node, Val, bool) {
	before := p.env.Cl.LogLen()
	p.cl.Send(raw)
	p.got++
	if !p.cl.WaitReplies(p.got, 3*time.Second) {
		p.redial()
		return nil, Val{}, false
	}
	v := p.cl.Snapshot().Replies[p.got-1].Val
	for _, r := range p.env.Cl.Log()[before:] {
		if strings.Contains(FirstKey(r), tok) {
			return r.Node, v, true
		}
	}
	return nil, v, true
}

type c14mismatch struct {
	what   string
	detail string
}

// check compares routing with the reference; it returns the mismatches.
func (p *c14probe) check(ref *c14ref, t *Topo, rng *rand.Rand, full bool) []c14mismatch {
	var out []c14mismatch
	slots := map[int]bool{}
	for _, tn := range t.Nodes {
		for _, s := range tn.Slots {
			for _, d := range []int{-1, 0, 1} {
				for _, b := range []int{s[0], s[1]} {
					if x := b + d; x >= 0 && x < 16384 {
						slots[x] = true
					}
				}
			}
		}
	}
	nrand := 40
	if full {
		nrand = 200
	}
	for i := 0; i < nrand; i++ {
		slots[rng.Intn(16384)] = true
	}
	var list []int
	for s := range slots {
		list = append(list, s)
	}
	sort.Ints(list)
	for _, s := range list {
		if ref.lenient[s] {
			continue
		}
		tok := newToken("pr")
		node, v, ok := p.where(Req("SET", Key(s, tok), "v"), tok)
		if !ok {
			out = append(out, c14mismatch{"probe-unanswered", fmt.Sprintf("slot %d: no reply to a probe write", s)})
			continue
		}
		want := ref.owner[s]
		switch {
		case want == nil && node != nil:
			out = append(out, c14mismatch{"unclaimed-slot-routed", fmt.Sprintf("slot %d is claimed by no usable master but the write went to %s", s, node.Addr)})
		case want == nil && v.Kind != '-':
			out = append(out, c14mismatch{"unclaimed-slot-not-error", fmt.Sprintf("slot %d unclaimed, reply %s", s, v.String())})
		case want != nil && node != want.Node:
			out = append(out, c14mismatch{"slot-routed-to-wrong-master", fmt.Sprintf("slot %d: expected master %s, write arrived at %s (reply %s)", s, want.Addr, addrOf(node), v.String())})
		}
		if len(out) > 12 {
			return out
		}
	}
	// reads: must land on the master or one of its usable replicas
	seenM := map[*TNode]bool{}
	for _, s := range list {
		m := ref.owner[s]
		if m == nil || seenM[m] || ref.lenient[s] {
			continue
		}
		seenM[m] = true
		allowed := map[*Node]bool{m.Node: true}
		for _, r := range ref.replicas[m.ID] {
			allowed[r.Node] = true
		}
		nreads := 12
		if full {
			nreads = 40
		}
		for k := 0; k < nreads; k++ {
			tok := newToken("rd")
			node, v, ok := p.where(Req("GET", Key(s, tok)), tok)
			if !ok || node == nil {
				if ok && v.Kind == '-' {
					continue // e.g. pool error towards a node being (re)dialled: C15's subject
				}
				continue
			}
			if !allowed[node] {
				what := "read-at-node-outside-replica-set"
				if ref.mustNot[node] {
					what = "read-at-unusable-replica"
				}
				out = append(out, c14mismatch{what, fmt.Sprintf("read for slot %d (master %s) served by %s", s, m.Addr, node.Addr)})
				break
			}
		}
	}
	return out
}

func runC14(c *Check, rng *rand.Rand) {
	c.Rule = "random histories of CLUSTER NODES descriptions (ranges split/moved/single-slot/unclaimed, masters added/removed/failed, failover, replicas added (also loading / link down), removed, re-parented, flagged fail/handshake/noaddr/disconnected, node ids changed, migration markers, 7-column lines, @cport on/off, texts padded with forgotten failed nodes up to exactly 163840 bytes) interleaved with unusable replies (error, nil, +OK, empty, oversized, garbage, two nodes), starting also with an unusable reply; after each valid description routing probes (every range boundary +-1, random slots; writes and reads) are compared with a reference interpreter, polled every 250 ms, verdict at 10 s; after each unusable reply the previous map must still be in force; one lane in four runs with msg_max_length_limit = 600 (smaller than any description); one lane (thorough: a third of them) runs with delay hooks armed inside the refresh goroutine and the ticker so that the table rebuild overlaps the refresh; distinct = (transition kind, preceding unusable kind)"
	c.Assumptions = []string{
		"'within a few seconds' is restated as <= 10 s after the fake nodes start serving the description (nominal <= ~2 s: 1 s probe tick + 1 s table tick)",
		"ambiguities resolved permissively: nodes flagged 'fail?' and known replicas that start loading later may be used or not; slots of such masters are not probed",
		"every listed, connected, unflagged node is reachable in these histories",
	}
	lanes := c.Pick(4, 12)
	if v, err := strconv.Atoi(os.Getenv("C14_LANES")); err == nil && v > 0 {
		lanes = v
	}
	steps := c.Pick(7, 25)
	var wg sync.WaitGroup
	// at most four lanes at a time: the verdicts use a wall-clock bound (the proxy's own
	// clock drives probes and table rebuilds), so the machine must not be saturated
	sem := make(chan struct{}, 4)
	for l := 0; l < lanes; l++ {
		wg.Add(1)
		go func(l int) {
			defer wg.Done()
			sem <- struct{}{}
			defer func() { <-sem }()
			defer func() {
				if r := recover(); r != nil {
					if ie, ok := r.(infraErr); ok {
						c.Inconclusive("lane %d: %s", l, string(ie))
						return
					}
					panic(r)
				}
			}()
			hooks := ""
			if (c.Thorough() && l%3 == 1) || (!c.Thorough() && l == lanes-1) {
				hooks = "cluster.beforeSetServer=sleep(300)@0.5,cluster.setServerMid=sleep(700)@0.7,cluster.beforeSetReplicaset=sleep(500)@0.5,cluster.beforeServerChanged=sleep(400)@0.5,ticker.afterReadChanged=sleep(300)@0.5,ticker.beforeClearChanged=sleep(600)@0.5"
			}
			mode := ""
			if c.Thorough() && l%3 == 2 {
				mode = "race"
			}
			c14lane(c, rand.New(rand.NewSource(c.Seed*100+int64(l))), l, steps, hooks, mode)
		}(l)
	}
	wg.Wait()
	c.MinEvals = 8
}

func c14lane(c *Check, rng *rand.Rand, lane, steps int, hooks, mode string) {
	firstUnusable := lane%2 == 1
	var envv []string
	hitsFile := ""
	if hooks != "" {
		hitsFile = TmpRoot() + fmt.Sprintf("/hits%d", lane)
		envv = []string{"RCPROXY_VERIF_POINTS=" + hooks, "RCPROXY_VERIF_HITS=" + hitsFile, fmt.Sprintf("RCPROXY_VERIF_SEED=%d", c.Seed+int64(lane))}
	}
	opt := EnvOpt{Masters: 4, Replicas: 1, Extra: 8, Cfg: ProxyCfg{Env: envv, LogLevel: os.Getenv("C14_LOGLEVEL")}, Mode: mode, NoWait: firstUnusable}
	if lane%4 == 2 {
		// a request / reply size limit far below the size of a CLUSTER NODES text: the
		// limit is about client traffic, the topology probe has its own bound
		opt.Cfg.MsgMax = 600
	}
	var gen *c14gen
	firstKind := c14unusableKinds[lane%len(c14unusableKinds)]
	opt.Topo = func(cl *Cluster) *Topo {
		t := RandomTopo(cl, 4, 1, 6, rng.Intn)
		t.Order = rng.Perm(len(t.Nodes))
		gen = &c14gen{cl: cl, rng: rng, cur: t, pool: cl.Nodes}
		return t
	}
	env, err := NewEnv(opt)
	must(err, "start env")
	defer env.Close()
	env.Cl.SetHandler(func(b *BReq) Action { return Action{Reply: ValueReply(b)} })
	if hooks != "" {
		// newly discovered nodes answer INFO slowly (below the client's 3 s read timeout)
		for i, n := range env.Cl.Nodes {
			if i >= 8 {
				n.InfoDelay = time.Duration(500+rng.Intn(2200)) * time.Millisecond
			}
		}
	}
	prevUnusable := ""
	if firstUnusable {
		// the very first probe replies are unusable; then the valid description
		env.Cl.SetNodesReply(c14unusable(firstKind, gen.cur))
		time.Sleep(2500 * time.Millisecond)
		gen.cur.Install(env.Cl)
		prevUnusable = firstKind
		if err := env.P.WaitReady(12 * time.Second); err != nil {
			if !env.P.Alive() {
				c.Violate(Violation{Class: "proxy-died", Shape: "first-reply-unusable:" + firstKind, Detail: env.P.PanicLine(), Witness: env.P.OutputTail(2000)})
				return
			}
			c.Eval(1)
			c.Distinct("initial/after-unusable:" + firstKind)
			c.Violate(Violation{Class: "valid-description-never-adopted", Shape: "initial/after-unusable:" + firstKind,
				Detail:  fmt.Sprintf("the first CLUSTER NODES replies were unusable (%s); the valid description served afterwards was not adopted within 12 s", firstKind),
				Witness: map[string]interface{}{"history": []string{"unusable:" + firstKind, "valid"}, "description": gen.cur.Text(nil)}})
			return
		}
		w, err := NewWitness(env.P.Addr)
		must(err, "witness")
		env.W = w
	}
	pr := &c14probe{env: env}
	pr.redial()
	defer func() { pr.cl.Close() }()
	known := map[string]bool{}
	for _, tn := range gen.cur.Nodes {
		known[tn.Addr] = true
	}
	ref := c14interpret(gen.cur, known)
	history := []string{"initial"}
	// waitProbes waits until the proxy has received n answers to its topology probe from
	// the generator installed last (the property speaks of replies the proxy received)
	waitProbes := func(n int, max time.Duration) bool {
		dl := time.Now().Add(max)
		for env.Cl.ProbesServed() < n {
			if time.Now().After(dl) || !env.P.Alive() {
				return false
			}
			time.Sleep(20 * time.Millisecond)
		}
		return true
	}
	converge := func(t *Topo, ref *c14ref, kind string) bool {
		if !waitProbes(1, 12*time.Second) && env.P.Alive() {
			c.Violate(Violation{Class: "topology-probe-stopped", Shape: kind,
				Detail:  "no CLUSTER NODES probe reached any node within 12 s of a new description being served (nominal: one per second)",
				Witness: map[string]interface{}{"history": history, "lane": lane, "delay_hooks": hooks}})
			return false
		}
		bound := 10 * time.Second
		if hooks != "" {
			// the armed delay points add up to ~2.8 s per adopted description (and a rapid
			// pair is two of them): with slow INFO replies (up to 2.7 s per unknown node and refresh) on top: one adoption can legitimately take ~10 s, a rapid pair twice that; what these lanes look for is a table that never converges
			bound = 45 * time.Second
		}
		deadline := time.Now().Add(bound)
		var mm []c14mismatch
		for {
			if !env.P.Alive() {
				c.Violate(Violation{Class: "proxy-died", Shape: kind, Detail: env.P.PanicLine(), Witness: map[string]interface{}{"history": history, "stderr": env.P.OutputTail(2000)}})
				return false
			}
			mm = pr.check(ref, t, rng, false)
			if len(mm) == 0 {
				mm = pr.check(ref, t, rng, true) // confirm with the full probe set
				if len(mm) == 0 {
					return true
				}
			}
			if time.Now().After(deadline) {
				break
			}
			time.Sleep(250 * time.Millisecond)
		}
		shape := kind
		if prevUnusable != "" {
			shape += "/after-unusable:" + prevUnusable
		}
		var ds []string
		for _, m := range mm {
			ds = append(ds, m.detail)
		}
		c.Violate(Violation{Class: "routing-not-converged:" + mm[0].what, Shape: shape,
			Detail:  fmt.Sprintf("%v after the proxy first received the new description routing still differs from it: %s", bound, mm[0].detail),
			Witness: map[string]interface{}{"history": history, "description": t.Text(nil), "mismatches": ds, "lane": lane, "delay_hooks": hooks, "proxy_build": modeName(mode)}})
		return false
	}
	c.Eval(1)
	c.Distinct("initial")
	if !converge(gen.cur, ref, "initial") {
		return
	}
	for st := 0; st < steps; st++ {
		if rng.Intn(3) == 0 {
			// unusable reply for ~2.5 s: the previous map must stay in force
			uk := c14unusableKinds[rng.Intn(len(c14unusableKinds))]
			env.Cl.SetNodesReply(c14unusable(uk, gen.cur))
			history = append(history, "unusable:"+uk)
			waitProbes(2, 8*time.Second) // the proxy has received the unusable reply twice
			time.Sleep(300 * time.Millisecond)
			c.Eval(1)
			c.Distinct("unusable:" + uk)
			if !env.P.Alive() {
				c.Violate(Violation{Class: "proxy-died", Shape: "unusable:" + uk, Detail: env.P.PanicLine(), Witness: map[string]interface{}{"history": history, "stderr": env.P.OutputTail(2000)}})
				return
			}
			if mm := pr.check(ref, gen.cur, rng, false); len(mm) > 0 {
				c.Violate(Violation{Class: "unusable-reply-changed-the-map:" + mm[0].what, Shape: "unusable:" + uk,
					Detail:  "after an unusable reply routing no longer matches the previous description: " + mm[0].detail,
					Witness: map[string]interface{}{"history": history}})
				return
			}
			c.Count("unusable_replies_left_map_in_force", 1)
			prevUnusable = uk
		}
		kind := c14nextKind(rng)
		nt, kind := gen.mutate(kind)
		nref := c14interpret(nt, ref.known)
		if nref == nil {
			continue
		}
		switch st % 3 {
		case 1:
			// two different descriptions in quick succession: an intermediate one is served
			// for a fraction of a tick, then the final one
			saved := gen.cur
			gen.cur = nt
			// (the second change is one that routing probes can see: if the proxy keeps the
			// intermediate description, that shows)
			k2 := c14nextKind(rng)
			if c14delayed && rng.Intn(2) == 0 {
				k2 = []string{"move-range", "shift-boundary", "failover"}[rng.Intn(3)]
			}
			nt2, kind2 := gen.mutate(k2)
			// the proxy may or may not get to see the intermediate description: an address
			// counts as newly discovered only if neither of the two previous ones had it
			both := map[string]bool{}
			for a := range ref.known {
				both[a] = true
			}
			for a := range nref.known {
				both[a] = true
			}
			if nref2 := c14interpret(nt2, both); nref2 != nil {
				nt.Install(env.Cl)
				if c14delayed && rng.Intn(3) > 0 {
					// The proxy probes once per table tick, right after the tick has loaded what
					// the previous probe brought. The reply carrying the intermediate description
					// is written a little more than a tick late, the next probe's reply (final
					// description) 0.4 s late: both reach the proxy, in this order, between the
					// same two ticks - two different usable descriptions within one tick.
					env.Cl.DelayProbes(time.Duration(1100+rng.Intn(100))*time.Millisecond, time.Duration(350+rng.Intn(100))*time.Millisecond)
					for i := 0; i < 400 && env.Cl.ProbesServed() < 1; i++ {
						time.Sleep(5 * time.Millisecond)
					}
				} else {
					time.Sleep(time.Duration(300+rng.Intn(900)) * time.Millisecond)
				}
				nt, nref, kind = nt2, nref2, kind+"+"+kind2+"(rapid)"
			} else {
				gen.cur = saved
			}
		case 2:
			// the connection that carries the topology probe is lost now and then
			env.Cl.KillProbeConns(2)
			kind += "(probe-connection-lost)"
		}
		gen.cur = nt
		nt.Install(env.Cl)
		history = append(history, kind)
		c.Eval(1)
		sig := kind
		if prevUnusable != "" {
			sig += "/after-unusable:" + prevUnusable
		}
		c.Distinct(sig)
		if !converge(nt, nref, kind) {
			return
		}
		c.Count("valid_descriptions_adopted", 1)
		ref = nref
		prevUnusable = ""
		if st == 1 && lane == 0 {
			c.Sample(map[string]interface{}{"history": append([]string(nil), history...), "description": nt.Text(nil)})
		}
	}
	if hitsFile != "" {
		if b, err := readFile(hitsFile); err == nil {
			for _, line := range bytes.Split(b, []byte("\n")) {
				var name string
				var hits, slept int
				if n, _ := fmt.Sscanf(string(line), "%s %d %d", &name, &hits, &slept); n == 3 {
					c.Count("hook_hits:"+name, int64(hits))
					c.Count("hook_sleeps:"+name, int64(slept))
				}
			}
		}
	}
	c.Count("race_reports_diagnostic", int64(env.P.RaceReports()))
}
