package main

import (
	"math/rand"
	"sort"

	. "vcheck/lib"
)

var cmdNames []string

func init() {
	for n := range CmdTable {
		cmdNames = append(cmdNames, n)
	}
	sort.Strings(cmdNames)
}

func randCase(rng *rand.Rand, name string) []byte {
	b := []byte(name)
	for i := range b {
		if b[i] >= 'a' && b[i] <= 'z' && rng.Intn(2) == 0 {
			b[i] -= 32
		}
	}
	return b
}

// genArg returns an argument byte string from a hostile profile.
func genArg(rng *rand.Rand, big int) []byte {
	switch rng.Intn(12) {
	case 0:
		return []byte{}
	case 1:
		return []byte{byte(rng.Intn(256))}
	case 2:
		b := make([]byte, 256)
		for i := range b {
			b[i] = byte(i)
		}
		return b
	case 3:
		return []byte("a\r\nb\r\n$5\r\n*3\r\n")
	case 4:
		return []byte("\r\n")
	case 5:
		if big > 0 {
			b := make([]byte, 1+rng.Intn(big))
			rng.Read(b)
			return b
		}
		fallthrough
	case 6:
		b := make([]byte, rng.Intn(300))
		rng.Read(b)
		return b
	default:
		b := make([]byte, 1+rng.Intn(12))
		for i := range b {
			b[i] = "abcdefghijklmnopqrstuvwxyz0123456789:-_"[rng.Intn(39)]
		}
		return b
	}
}

// argCount picks a valid argument count for the arity class.
func argCount(rng *rand.Rand, ar Arity) int {
	switch ar {
	case ArInf:
		if rng.Intn(4) == 0 {
			return 1 + rng.Intn(30)
		}
		return 1 + rng.Intn(4)
	case ArEven:
		return 2 * (1 + rng.Intn(4))
	case ArEval:
		return 3 + rng.Intn(4)
	}
	return MinimalArgs(ar)
}

// genCommand builds a valid request for command name with the routing key key.
func genCommand(rng *rand.Rand, name string, key []byte, big int) [][]byte {
	ci := CmdTable[name]
	n := argCount(rng, ci.Arity)
	args := [][]byte{randCase(rng, name)}
	ki := KeyIndex(ci)
	for i := 0; i < n; i++ {
		if i == ki {
			args = append(args, key)
		} else if ci.Role == RoleScript && i == 1 {
			args = append(args, []byte("1"))
		} else {
			args = append(args, genArg(rng, big))
		}
	}
	return args
}

var actedOnPrefixes = []string{"MOVED", "ASK", "NOAUTH", "ERR invalid password", "ERR Client sent AUTH", "ERR AUTH <password>"}

var errPrefixes = []string{"ERR", "WRONGTYPE", "LOADING", "CLUSTERDOWN", "TRYAGAIN", "CROSSSLOT", "READONLY", "BUSY", "NOSCRIPT", "OOM", "MISCONF",
	"MASTERDOWN", "NOREPLICAS", "EXECABORT", "NOPERM", "WRONGPASS"}

// genReply produces a random well-formed RESP2 value (never one of the
// errors the proxy itself acts on).
func genReply(rng *rand.Rand, depth int, big int) []byte {
	k := rng.Intn(10)
	if depth >= 4 && k >= 7 {
		k = rng.Intn(7)
	}
	switch k {
	case 0:
		s := []string{"OK", "PONG", "QUEUED", "", "OKAY", "O", "some status with spaces"}[rng.Intn(7)]
		return StatusReply(s)
	case 1:
		p := errPrefixes[rng.Intn(len(errPrefixes))]
		msgs := []string{" something went wrong", "", " Operation against a key holding the wrong kind of value", " x", " invalid expire time in 'set' command", " invalid cursor", " syntax error"}
		return ErrReply(p + msgs[rng.Intn(len(msgs))])
	case 2:
		vals := []int64{0, 1, -1, 42, 9223372036854775807, -9223372036854775808, 1000000}
		return IntReply(vals[rng.Intn(len(vals))])
	case 3:
		return NullBulk()
	case 4, 5, 6:
		return BulkReply(genArg(rng, big))
	case 7:
		return []byte("*-1\r\n")
	case 8:
		return []byte("*0\r\n")
	default:
		n := 1 + rng.Intn(5)
		el := make([][]byte, n)
		for i := range el {
			el[i] = genReply(rng, depth+1, big/8)
		}
		return ArrayReply(el...)
	}
}
