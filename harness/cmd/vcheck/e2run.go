package main

import (
	"encoding/json"
	"fmt"
	"os"
	"os/exec"
	"path/filepath"
	"strings"
	"sync"
	"time"

	. "vcheck/lib"
)

type e2Viol struct {
	Class   string      `json:"class"`
	Shape   string      `json:"shape"`
	Detail  string      `json:"detail"`
	Witness interface{} `json:"witness"`
}

type e2Result struct {
	Evals    int64            `json:"evals"`
	Distinct int64            `json:"distinct"`
	Samples  []interface{}    `json:"samples"`
	Counters map[string]int64 `json:"counters"`
	Viols    []e2Viol         `json:"viols"`
	Notes    []string         `json:"notes"`
}

var (
	e2Mu   sync.Mutex
	e2Bins = map[string]string{}
)

const harnessDir = "/verif/harness"

// e2Bin builds cmd/e2 against /repo's current working tree (the module
// replaces rcproxy with /repo), in the given sanitizer mode.
func e2Bin(mode string) (string, error) {
	e2Mu.Lock()
	defer e2Mu.Unlock()
	if b, ok := e2Bins[mode]; ok {
		return b, nil
	}
	out := filepath.Join(TmpRoot(), "e2"+mode)
	args := []string{"build", "-tags", "verif"}
	switch mode {
	case "race":
		args = append(args, "-race")
	case "asan":
		args = append(args, "-asan")
	case "checkptr":
		args = append(args, "-gcflags=all=-d=checkptr")
	}
	if RepoDir != "/repo" {
		// tooling only: same module, rcproxy replaced by the scratch tree
		gm, err := os.ReadFile(filepath.Join(harnessDir, "go.mod"))
		if err != nil {
			return "", err
		}
		alt := filepath.Join(TmpRoot(), "alt.mod")
		os.WriteFile(alt, []byte(strings.Replace(string(gm), "=> /repo", "=> "+RepoDir, 1)), 0o644)
		if gs, err := os.ReadFile(filepath.Join(harnessDir, "go.sum")); err == nil {
			os.WriteFile(filepath.Join(TmpRoot(), "alt.sum"), gs, 0o644)
		}
		args = append(args, "-modfile="+alt)
	}
	args = append(args, "-o", out, "./cmd/e2")
	cmd := exec.Command("go", args...)
	cmd.Dir = harnessDir
	cmd.Env = GoEnv()
	b, err := cmd.CombinedOutput()
	if err != nil {
		return "", fmt.Errorf("go build e2 (%s) failed: %v\n%s", mode, err, b)
	}
	e2Bins[mode] = out
	return out, nil
}

var e2Seq int

// runE2 runs one child and folds its result into the check. A child that dies
// (panic, sanitizer report, checkptr) is a violation of class process-died
// whose witness names the last case written before the death.
func runE2(c *Check, mode, sub string, timeout time.Duration, args ...string) *e2Result {
	bin, err := e2Bin(mode)
	must(err, "build e2")
	e2Mu.Lock()
	e2Seq++
	id := e2Seq
	e2Mu.Unlock()
	outf := filepath.Join(TmpRoot(), fmt.Sprintf("e2-%d.json", id))
	lastf := filepath.Join(TmpRoot(), fmt.Sprintf("e2-%d.last", id))
	logf := filepath.Join(TmpRoot(), fmt.Sprintf("e2-%d.log", id))
	full := append([]string{sub, "--out", outf, "--last", lastf, "--seed", fmt.Sprint(c.Seed)}, args...)
	cmd := exec.Command(bin, full...)
	lf, _ := os.Create(logf)
	cmd.Stdout = lf
	cmd.Stderr = lf
	cmd.Env = append(os.Environ(), "GOTRACEBACK=all", "GORACE=halt_on_error=0", "ASAN_OPTIONS=detect_leaks=0")
	must(cmd.Start(), "start e2")
	done := make(chan error, 1)
	go func() { done <- cmd.Wait() }()
	var werr error
	select {
	case werr = <-done:
	case <-time.After(timeout):
		cmd.Process.Kill()
		<-done
		lf.Close()
		infra("e2 %s (%s) exceeded watchdog %v", sub, mode, timeout)
	}
	lf.Close()
	logb, _ := os.ReadFile(logf)
	if mode == "race" {
		c.Count("race_reports_diagnostic", int64(strings.Count(string(logb), "WARNING: DATA RACE")))
	}
	if werr != nil {
		last, _ := os.ReadFile(lastf)
		tail := string(logb)
		first := firstFatalLine(tail)
		if len(tail) > 4000 {
			tail = tail[:2000] + "\n...\n" + tail[len(tail)-2000:]
		}
		c.Violate(Violation{Class: "process-died", Shape: sub + ":" + fatalShape(first),
			Detail:  fmt.Sprintf("in-process monitor child (%s build) died: %s; last case: %s", modeName(mode), first, last),
			Witness: map[string]interface{}{"mode": modeName(mode), "last_case": string(last), "output": tail}})
		c.Eval(1)
		return nil
	}
	b, err := os.ReadFile(outf)
	must(err, "read e2 result")
	var r e2Result
	must(json.Unmarshal(b, &r), "parse e2 result")
	for _, n := range r.Notes {
		if strings.HasPrefix(n, "SELF-CHECK FAILED") {
			infra("%s", n)
		}
	}
	c.Eval(int(r.Evals))
	for k, v := range r.Counters {
		c.Count(k+"["+modeName(mode)+"]", v)
	}
	for _, s := range r.Samples {
		c.Sample(s)
	}
	for _, v := range r.Viols {
		c.Violate(Violation{Class: v.Class, Shape: v.Shape, Detail: v.Detail, Witness: v.Witness})
	}
	return &r
}

func modeName(m string) string {
	if m == "" {
		return "plain"
	}
	return m
}

func firstFatalLine(s string) string {
	for _, line := range strings.Split(s, "\n") {
		if strings.HasPrefix(line, "panic:") || strings.HasPrefix(line, "fatal error:") || strings.Contains(line, "ERROR: AddressSanitizer") {
			return line
		}
	}
	if len(s) > 200 {
		return s[:200]
	}
	return s
}

// fatalShape reduces a fatal line to a stable shape (numbers removed).
func fatalShape(s string) string {
	var sb strings.Builder
	for _, r := range s {
		if r >= '0' && r <= '9' {
			continue
		}
		sb.WriteRune(r)
	}
	out := strings.TrimSpace(sb.String())
	if len(out) > 80 {
		out = out[:80]
	}
	return out
}
