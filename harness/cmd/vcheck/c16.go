package main

import (
	"bytes"
	"fmt"
	"math/rand"
	"strings"
	"sync"
	"time"

	. "vcheck/lib"
)

func init() { register("C16", "fault_enumeration", runC16) }

const c16T = 300 // ms

type c16case struct {
	n        int
	stalled  int  // bitmask of stalled positions
	late     bool // stalled backends answer after 3T (else only after the verdict)
	split    int  // position that is a split request (-1 none)
	fmask    int  // stalled fragments of the split request (when it is stalled)
	sameNode bool // requests behind the stalled one go to the same node (head-of-line)
}

func runC16(c *Check, rng *rand.Rand) {
	c.Rule = fmt.Sprintf("fault enumeration with timeout=%dms: every non-empty subset of stalled positions in pipelines of length <= L x {backend answers after 3T, only after the verdict} x {single-key, split request with every non-empty subset of its fragments stalled}; oracle: exactly one reply per request in position, an error at stalled positions, the normal reply elsewhere (other nodes), a follow-up request on the same connection round-trips, the late backend reply never reaches a client; pipelines with 1025-2600 answered requests behind a head that times out; distinct = (length, stalled subset, variant)", c16T)
	c.Assumptions = []string{
		"bounded-progress restatement: verdict at T + 6 s (nominal T + ~1.2 s: the timeout scan runs after event-loop rounds that had events; the 1 s ticker guarantees one)",
		"requests behind a stalled one on the same node are head-of-line blocked and may legitimately time out too: for them only 'exactly one reply, normal or error, in position' is asserted",
	}
	lanes := 4
	perLane := c.Pick(6, 10)
	env, err := NewEnv(EnvOpt{Masters: lanes * perLane, Cfg: ProxyCfg{Timeout: c16T}})
	must(err, "start env")
	defer env.Close()
	script := NewScript()
	env.Cl.SetHandler(script.Handler)

	var cases []c16case
	maxN := c.Pick(4, 5)
	for n := 1; n <= maxN; n++ {
		for m := 1; m < 1<<n; m++ {
			cases = append(cases, c16case{n: n, stalled: m, late: (m+n)%2 == 0, split: -1})
		}
	}
	// split requests: 3 fragments, every non-empty stalled subset, at each position of a 3-pipeline
	for pos := 0; pos < 3; pos++ {
		for fm := 1; fm < 8; fm++ {
			cases = append(cases, c16case{n: 3, stalled: 1 << pos, late: fm%2 == 0, split: pos, fmask: fm})
		}
	}
	// head-of-line: followers on the same node
	for i := 0; i < c.Pick(4, 30); i++ {
		cases = append(cases, c16case{n: 3, stalled: 1, late: i%2 == 0, split: -1, sameNode: true})
	}
	if c.Thorough() {
		for i := 0; i < 300; i++ {
			n := 2 + rng.Intn(5)
			cases = append(cases, c16case{n: n, stalled: 1 + rng.Intn(1<<n-1), late: rng.Intn(2) == 0, split: -1})
		}
	}
	ch := make(chan c16case, len(cases))
	for _, cs := range cases {
		ch <- cs
	}
	close(ch)
	var wg sync.WaitGroup
	for l := 0; l < lanes; l++ {
		wg.Add(1)
		go func(l int) {
			defer wg.Done()
			defer func() {
				if r := recover(); r != nil {
					if ie, ok := r.(infraErr); ok {
						c.Inconclusive("%s", string(ie))
						return
					}
					panic(r)
				}
			}()
			lrng := rand.New(rand.NewSource(c.Seed*10 + int64(l)))
			nodes := env.T.Nodes[l*perLane : (l+1)*perLane]
			for cs := range ch {
				if !env.P.Alive() {
					c.Violate(Violation{Class: "proxy-died", Shape: "timeout-workload", Detail: env.P.PanicLine(), Witness: env.P.OutputTail(2000)})
					return
				}
				c16run(c, lrng, env, script, nodes, cs)
			}
		}(l)
	}
	wg.Wait()
	// more completed replies behind the timed-out head of a pipeline than one vectored
	// write takes (1024): the timeout is the only event that can flush them
	for k := 0; k < c.Pick(2, 10) && env.P.Alive(); k++ {
		n := []int{1026, 1100 + rng.Intn(1500)}[k%2]
		cl, p, gate, err := deepPipeline(env, script, rng, n)
		must(err, "deep pipeline")
		ok := cl.WaitReplies(n, time.Duration(c16T)*time.Millisecond+8*time.Second)
		s := cl.Snapshot()
		c.Eval(1)
		c.Distinct(fmt.Sprintf("deep-behind-timed-out-head/%d", n))
		wit := map[string]interface{}{"requests": n, "replies": len(s.Replies), "shape": "first request never answered by its node, all later ones answered at once by other nodes"}
		switch {
		case !env.P.Alive():
			c.Violate(Violation{Class: "proxy-died", Shape: "deep-pipeline-behind-timed-out-head", Detail: env.P.PanicLine(), Witness: wit})
		case !ok:
			c.Violate(Violation{Class: "missing-replies-after-timeout", Shape: "deep-pipeline-behind-timed-out-head",
				Detail: fmt.Sprintf("%d of %d replies %d ms + 8 s after the pipeline was sent (its head timed out, everything behind it had been answered long before)", len(s.Replies), n, c16T), Witness: wit})
		case s.Replies[0].Val.Kind != '-':
			c.Violate(Violation{Class: "stalled-request-not-answered-with-error", Shape: "deep-pipeline-behind-timed-out-head", Detail: "the head got " + s.Replies[0].Val.String(), Witness: wit})
		default:
			bad := -1
			for i := 1; i < n; i++ {
				if !matches(p[i], s.Replies[i].Val) {
					bad = i
					break
				}
			}
			if bad >= 0 {
				c.Violate(Violation{Class: "wrong-reply-behind-timed-out-request", Shape: "deep-pipeline-behind-timed-out-head", Detail: fmt.Sprintf("position %d: expected %s got %s", bad, Q(p[bad].Expect), s.Replies[bad].Val.String()), Witness: wit})
			} else {
				c.Count("deep_pipelines_behind_timed_out_head_verified", 1)
			}
		}
		gate.Open() // the late reply
		env.Barrier()
		fk := Key(rng.Intn(16384), newToken("fu"))
		cl.Send(Req("GET", fk))
		if ok && env.P.Alive() {
			if !cl.WaitReplies(n+1, 5*time.Second) || !bytes.Equal(cl.Snapshot().Replies[n].Val.Raw, BulkReply([]byte("v:"+fk))) {
				c.Violate(Violation{Class: "connection-unusable-after-timeout", Shape: "deep-pipeline-behind-timed-out-head", Detail: "the follow-up request was not answered normally", Witness: wit})
			}
		}
		cl.Close()
		for _, r := range p {
			script.Forget(r.Keys...)
		}
	}
	c16handshake(c, rng)
	// a timed-out request whose node is lost later, while other requests are in flight
	c15compound(c, rng, c16T)
	c.MinEvals = 20
}

func slotOf(tn *TNode, rng *rand.Rand) int {
	r := tn.Slots[0]
	return r[0] + rng.Intn(r[1]-r[0]+1)
}

func c16run(c *Check, rng *rand.Rand, env *Env, script *Script, nodes []*TNode, cs c16case) {
	type reqInfo struct {
		raw     []byte
		expect  []byte
		stalled bool
		hol     bool // same node as a stalled earlier request
		keys    []string
		gates   []*Gate
		tokens  []string
	}
	var reqs []*reqInfo
	perm := rng.Perm(len(nodes))
	next := 0
	take := func() *TNode { // every request / fragment gets its own node (the last one is the spare for follow-ups)
		tn := nodes[perm[next%(len(perm)-1)]]
		next++
		return tn
	}
	for i := 0; i < cs.n; i++ {
		ri := &reqInfo{stalled: cs.stalled&(1<<i) != 0}
		node := take()
		if cs.sameNode {
			node = nodes[perm[0]]
			ri.hol = i > 0
		}
		if i == cs.split {
			// 3 fragments on 3 distinct nodes
			var args []string
			args = append(args, "MGET")
			var el [][]byte
			for f := 0; f < 3; f++ {
				fn := node
				if f > 0 {
					fn = take()
				}
				k := Key(slotOf(fn, rng), newToken("tf"))
				args = append(args, k)
				ri.keys = append(ri.keys, k)
				el = append(el, BulkReply([]byte("v:"+k)))
				if cs.fmask&(1<<f) != 0 {
					g := NewGate()
					script.Plan(k).Gate = g
					ri.gates = append(ri.gates, g)
				}
			}
			ri.raw = Req(args...)
			ri.expect = ArrayReply(el...)
		} else {
			k := Key(slotOf(node, rng), newToken("to"))
			ri.keys = []string{k}
			ri.raw = Req("GET", k)
			ri.expect = BulkReply([]byte("v:" + k))
			if ri.stalled {
				g := NewGate()
				script.Plan(k).Gate = g
				ri.gates = append(ri.gates, g)
			}
		}
		reqs = append(reqs, ri)
	}
	cl, err := env.Dial()
	must(err, "dial")
	defer cl.Close()
	var all []byte
	for _, r := range reqs {
		all = append(all, r.raw...)
	}
	cl.Send(all)
	t0 := time.Now()
	openAll := func() {
		for _, r := range reqs {
			for _, g := range r.gates {
				g.Open()
			}
		}
	}
	if cs.late {
		go func() {
			time.Sleep(3 * c16T * time.Millisecond)
			openAll()
		}()
	}
	deadline := time.Duration(c16T)*time.Millisecond + 6*time.Second
	ok := cl.WaitReplies(cs.n, deadline)
	shape := fmt.Sprintf("n=%d/stalled=%s/late=%v", cs.n, maskStr(cs.stalled, cs.n), cs.late)
	if cs.split >= 0 {
		shape = fmt.Sprintf("split@%d/frags=%s/late=%v", cs.split, maskStr(cs.fmask, 3), cs.late)
	}
	if cs.sameNode {
		shape = fmt.Sprintf("same-node/late=%v", cs.late)
	}
	var pl []string
	for _, r := range reqs {
		pl = append(pl, Q(r.raw))
	}
	s := cl.Snapshot()
	wit := map[string]interface{}{"timeout_ms": c16T, "pipeline": pl, "stalled_positions": maskStr(cs.stalled, cs.n), "late_answer_after_3T": cs.late,
		"received": valStrings(s.Replies), "elapsed_ms": time.Since(t0).Milliseconds()}
	c.Eval(1)
	c.Distinct(shape)
	bad := false
	if !ok {
		bad = true
		c.Violate(Violation{Class: "timeout-not-answered-in-time", Shape: classShape(cs), Detail: fmt.Sprintf("%s: only %d of %d replies within T+6s (closed=%v)", shape, len(s.Replies), cs.n, s.Closed), Witness: wit})
	}
	for i := 0; i < len(s.Replies) && i < cs.n; i++ {
		v := s.Replies[i].Val
		r := reqs[i]
		switch {
		case r.stalled && !cs.late:
			if v.Kind != '-' {
				bad = true
				c.Violate(Violation{Class: "stalled-position-not-an-error", Shape: classShape(cs), Detail: fmt.Sprintf("%s: position %d got %s", shape, i, v.String()), Witness: wit})
			}
		case r.stalled && cs.late:
			// the backend answers at 3T > T: an error is required (T + scan granularity < 3T is not guaranteed, so the normal reply is tolerated when the scan had not run yet)
			if v.Kind != '-' && !bytes.Equal(v.Raw, r.expect) {
				bad = true
				c.Violate(Violation{Class: "stalled-position-wrong-reply", Shape: classShape(cs), Detail: fmt.Sprintf("%s: position %d got %s", shape, i, v.String()), Witness: wit})
			}
		case r.hol:
			if v.Kind != '-' && !bytes.Equal(v.Raw, r.expect) {
				bad = true
				c.Violate(Violation{Class: "head-of-line-position-wrong-reply", Shape: classShape(cs), Detail: fmt.Sprintf("%s: position %d got %s", shape, i, v.String()), Witness: wit})
			}
		default:
			if !bytes.Equal(v.Raw, r.expect) {
				bad = true
				cls := "normal-position-wrong-reply"
				if v.Kind == '-' && strings.Contains(string(v.Str), "timeout") {
					cls = "timeout-error-out-of-position"
				}
				c.Violate(Violation{Class: cls, Shape: classShape(cs), Detail: fmt.Sprintf("%s: position %d (not stalled) got %s, expected %s", shape, i, v.String(), Q(r.expect)), Witness: wit})
			}
		}
		if bad {
			break
		}
	}
	// connection stays usable
	follow := func(tag string) bool {
		spare := nodes[perm[len(perm)-1]]
		k := Key(slotOf(spare, rng), newToken("fu"))
		before := cl.NReplies()
		cl.Send(Req("GET", k))
		if !cl.WaitReplies(before+1, time.Duration(c16T)*time.Millisecond+6*time.Second) {
			c.Violate(Violation{Class: "connection-unusable-after-timeout", Shape: classShape(cs), Detail: fmt.Sprintf("%s: follow-up request %s got no reply", shape, tag), Witness: wit})
			return false
		}
		v := cl.Snapshot().Replies[before].Val
		if !bytes.Equal(v.Raw, BulkReply([]byte("v:"+k))) {
			c.Violate(Violation{Class: "connection-unusable-after-timeout", Shape: classShape(cs), Detail: fmt.Sprintf("%s: follow-up request %s answered %s", shape, tag, v.String()), Witness: wit})
			return false
		}
		return true
	}
	if !bad && !cs.sameNode {
		if follow("before-late-reply") {
			c.Count("followups_ok", 1)
		} else {
			bad = true
		}
	}
	// late replies must be discarded
	openAll()
	for _, r := range reqs {
		for _, k := range r.keys {
			if pl := script.Lookup(k); pl != nil && pl.Gate != nil {
				dl := time.Now().Add(3 * time.Second)
				for time.Now().Before(dl) {
					seen := pl.SeenReqs()
					if len(seen) == 0 || seen[len(seen)-1].Replied() != 0 {
						break
					}
					time.Sleep(time.Millisecond)
				}
			}
		}
	}
	env.Barrier()
	if !bad {
		n0 := cl.NReplies()
		if !cs.sameNode {
			if follow("after-late-reply") {
				c.Count("followups_ok", 1)
			}
		}
		s2 := cl.Snapshot()
		for i := n0; i < len(s2.Replies); i++ {
			for _, r := range reqs {
				if r.stalled && bytes.Equal(s2.Replies[i].Val.Raw, r.expect) {
					c.Violate(Violation{Class: "late-reply-delivered", Shape: classShape(cs), Detail: fmt.Sprintf("%s: the backend's late reply reached the client as reply %d", shape, i), Witness: wit})
				}
			}
		}
		c.Count("cases_ok", 1)
	}
	for _, r := range reqs {
		script.Forget(r.keys...)
	}
	if cs.n == 3 && cs.stalled == 2 {
		c.Sample(wit)
	}
}

func classShape(cs c16case) string {
	switch {
	case cs.sameNode:
		return "same-node-followers"
	case cs.split >= 0:
		return "split-request"
	}
	return "single-key"
}

// c16handshake: with a redis password every backend connection the proxy dials starts
// with an AUTH exchange. Requests written behind a handshake that is still in progress
// (fresh connection after a loss; the node answers AUTH a little late) to a node that
// then never answers them must time out like any other: one error each, in position.
func c16handshake(c *Check, rng *rand.Rand) {
	env, err := NewEnv(EnvOpt{Masters: 3, Cfg: ProxyCfg{Timeout: c16T, Password: "pw16"}})
	must(err, "start env")
	defer env.Close()
	script := NewScript()
	env.Cl.SetHandler(script.Handler)
	env.Cl.HandshakeMode = "merge" // the AUTH reply is written ~30 ms after AUTH arrived
	for rep := 0; rep < c.Pick(6, 40) && env.P.Alive(); rep++ {
		victim := env.T.Nodes[rep%3]
		other := env.T.Nodes[(rep+1)%3]
		victim.Node.KillConns()
		env.Barrier()
		n := 2 + rng.Intn(4)
		var batch []byte
		var keys []string
		var gates []*Gate
		for i := 0; i < n; i++ {
			k := Key(slotOf(victim, rng), newToken("hs"))
			g := NewGate()
			script.Plan(k).Gate = g
			keys = append(keys, k)
			gates = append(gates, g)
			batch = append(batch, Req("GET", k)...)
		}
		ok2 := Key(slotOf(other, rng), newToken("hs"))
		batch = append(batch, Req("GET", ok2)...)
		cl, err := env.Dial()
		must(err, "dial")
		cl.Send(batch)
		ok := cl.WaitReplies(n+1, time.Duration(c16T)*time.Millisecond+8*time.Second)
		s := cl.Snapshot()
		c.Eval(1)
		c.Distinct(fmt.Sprintf("behind-handshake/%d", n))
		wit := map[string]interface{}{"stalled_requests_behind_a_fresh_handshake": n, "received": valStrings(s.Replies), "password": true}
		switch {
		case !ok:
			c.Violate(Violation{Class: "missing-replies-after-timeout", Shape: "requests-behind-a-handshake",
				Detail: fmt.Sprintf("%d requests were written to a freshly dialled, still authenticating connection of a node that then never answered: %d of %d replies %d ms + 8 s later", n, len(s.Replies), n+1, c16T), Witness: wit})
		default:
			bad := false
			for i := 0; i < n; i++ {
				if s.Replies[i].Val.Kind != '-' {
					bad = true
				}
			}
			if bad || !bytes.Equal(s.Replies[n].Val.Raw, BulkReply([]byte("v:"+ok2))) {
				c.Violate(Violation{Class: "wrong-reply-around-timeout", Shape: "requests-behind-a-handshake", Detail: "expected an error per stalled request and the normal reply for the request on the healthy node", Witness: wit})
			} else {
				c.Count("timeouts_behind_handshake_verified", 1)
			}
		}
		for _, g := range gates {
			g.Open()
		}
		env.Barrier()
		cl.Close()
		script.Forget(keys...)
		script.Forget(ok2)
	}
}
