package main

import (
	"fmt"
	"math/rand"
	"os"
	"strconv"
	"strings"
	"sync"
	"time"

	. "vcheck/lib"
)

func init() { register("C03", "exploration", runC03) }

// value tokens: keys are {tag}z<conn>.<seq>[.<n>]; the fake cluster's value of a
// key is "v:"+key, so every bulk a client receives names the connection and
// request it was produced for.
func c03parse(val []byte) (conn, seq int, ok bool) {
	s := string(val)
	i := strings.Index(s, "}z")
	if !strings.HasPrefix(s, "v:") || i < 0 {
		return 0, 0, false
	}
	parts := strings.Split(s[i+2:], ".")
	if len(parts) < 2 {
		return 0, 0, false
	}
	a, e1 := strconv.Atoi(parts[0])
	b, e2 := strconv.Atoi(parts[1])
	return a, b, e1 == nil && e2 == nil
}

var c03conn int64
var c03mu sync.Mutex

type c03client struct {
	id   int
	cl   *Client
	nreq int
	sent []string // request kinds, for witnesses
}

func newC03client(env *Env) *c03client {
	cl, err := env.Dial()
	must(err, "dial")
	c03mu.Lock()
	c03conn++
	id := int(c03conn)
	c03mu.Unlock()
	return &c03client{id: id, cl: cl}
}

func (k *c03client) key(slot int, n int) string {
	return Key(slot, fmt.Sprintf("z%d.%d.%d", k.id, k.nreq, n))
}

func (k *c03client) get(slot int) string {
	key := k.key(slot, 0)
	k.cl.Send(Req("GET", key))
	k.nreq++
	k.sent = append(k.sent, "GET "+key)
	return key
}

func (k *c03client) mget(slots ...int) []string {
	args := []string{"MGET"}
	var keys []string
	for i, s := range slots {
		key := k.key(s, i)
		keys = append(keys, key)
		args = append(args, key)
	}
	k.cl.Send(Req(args...))
	k.nreq++
	k.sent = append(k.sent, strings.Join(args, " "))
	return keys
}

// del sends a DEL whose keys lie in several slots (merged integer reply: it carries no
// token, but it is rendered by the proxy itself into whatever buffer the request's
// message object holds).
func (k *c03client) del(slots ...int) {
	args := []string{"DEL"}
	for i, s := range slots {
		args = append(args, k.key(s, i))
	}
	k.cl.Send(Req(args...))
	k.nreq++
	k.sent = append(k.sent, strings.Join(args, " "))
}

// judge checks attribution of everything the client received.
func (k *c03client) judge(c *Check, scenario string) {
	s := k.cl.Snapshot()
	lastSeq := -1
	aligned := len(s.Replies) == k.nreq
	for i, r := range s.Replies {
		var vals []Val
		switch r.Val.Kind {
		case '$':
			vals = []Val{r.Val}
		case '*':
			vals = r.Val.Arr
		}
		if aligned && strings.HasPrefix(k.sent[i], "DEL ") && (r.Val.Kind == '$' || r.Val.Kind == '*') {
			c.Violate(Violation{Class: "reply-of-another-request", Shape: scenario,
				Detail:  fmt.Sprintf("connection %d: position %d is a DEL but holds %s", k.id, i, r.Val.String()),
				Witness: map[string]interface{}{"scenario": scenario, "connection": k.id, "requests_sent": k.sent, "replies": valStrings(s.Replies)}})
			return
		}
		for _, v := range vals {
			if v.Null {
				continue
			}
			conn, seq, ok := c03parse(v.Str)
			if !ok {
				continue
			}
			c.Count("token_replies_attributed", 1)
			wit := map[string]interface{}{"scenario": scenario, "connection": k.id, "reply_position": i, "reply": r.Val.String(), "requests_sent": k.sent, "replies": valStrings(s.Replies)}
			switch {
			case conn != k.id:
				c.Violate(Violation{Class: "reply-of-another-client", Shape: scenario,
					Detail:  fmt.Sprintf("connection %d received at position %d data produced for connection %d (request %d): %s", k.id, i, conn, seq, r.Val.String()),
					Witness: wit})
				return
			case seq < lastSeq:
				c.Violate(Violation{Class: "reply-of-another-request", Shape: scenario,
					Detail: fmt.Sprintf("connection %d: data of its request %d delivered after data of request %d", k.id, seq, lastSeq), Witness: wit})
				return
			case aligned && seq != i:
				c.Violate(Violation{Class: "reply-of-another-request", Shape: scenario,
					Detail: fmt.Sprintf("connection %d: position %d holds data produced for its request %d", k.id, i, seq), Witness: wit})
				return
			}
			lastSeq = seq
		}
	}
}

func runC03(c *Check, rng *rand.Rand) {
	c.Rule = "chaos episodes on a topology with an unowned slot range and a listed node that refuses connections: concurrent clients pipeline GET/MGET (and multi-slot DEL, whose merged integer replies wait behind gated requests) against gated backends while (P) multi-key requests fail routing after some fragments were queued and other clients' requests follow immediately, (O) a fragment reply above the size limit completes a split request while its sibling is outstanding, (D) clients abort with requests in flight and new clients connect at once, (K) backend connections are killed and re-dialled, (T, timeout=300ms) requests time out and their replies arrive late; (a third environment runs K/D/P with a password and replicas, every re-dialled backend connection starting with a one- or two-step handshake answered byte by byte); then all gates open in random order. Every value the fake cluster returns names the connection and request it was produced for; oracle: a client only ever receives values of its own connection, in request order (exact position when reply count equals request count); proxy-generated errors carry no token and are always acceptable; distinct = (scenario, clients, shape)"
	c.Assumptions = []string{"token attribution only; whether an error was due, and reply counts, are other properties' subject"}
	var wg sync.WaitGroup
	run := func(timeout int, scen []string, seed int64, mode string) {
		wg.Add(1)
		go func() {
			defer wg.Done()
			defer func() {
				if r := recover(); r != nil {
					if ie, ok := r.(infraErr); ok {
						c.Inconclusive("%s", string(ie))
						return
					}
					panic(r)
				}
			}()
			c03env(c, rand.New(rand.NewSource(seed)), timeout, scen, mode)
		}()
	}
	run(0, []string{"P", "O", "K", "D", "K", "O", "P", "K"}, c.Seed*10+1, "")
	run(300, []string{"T", "P", "T"}, c.Seed*10+2, "")
	run(0, []string{"K", "D", "K", "P"}, c.Seed*10+4, "hs")
	if c.Thorough() {
		run(0, []string{"P", "D", "K", "P"}, c.Seed*10+3, "race")
	}
	wg.Wait()
	c.MinEvals = 10
}

func c03env(c *Check, rng *rand.Rand, timeout int, scen []string, mode string) {
	var gapLo, gapHi int
	// mode "hs": a password and one replica per master, so that every backend connection
	// the proxy (re-)dials starts with a handshake of one (master: AUTH) or two (replica:
	// AUTH, READONLY) steps whose replies the nodes write byte by byte
	hs := mode == "hs"
	replicas, password := 0, ""
	if hs {
		mode, replicas, password = "", 1, "pw03"
	}
	env, err := NewEnv(EnvOpt{Masters: 6, Replicas: replicas, Cfg: ProxyCfg{Timeout: timeout, MsgMax: 65536, Password: password}, Mode: mode, Topo: func(cl *Cluster) *Topo {
		t := EvenTopo(cl, 6, replicas)
		// an unowned range at the end of master 5's slots
		r := t.Nodes[5].Slots[0]
		gapLo, gapHi = r[1]-300, r[1]
		t.Nodes[5].Slots[0] = [2]int{r[0], gapLo - 1}
		return t
	}})
	must(err, "start env")
	defer env.Close()
	script := NewScript()
	env.Cl.SetHandler(script.Handler)
	if hs {
		env.Cl.HandshakeMode = "split"
	}
	// master 4 is listed but refuses connections from now on
	down := env.T.Nodes[4]
	down.Node.SetDown(true)
	goodSlot := func() int {
		for {
			s := rng.Intn(16384)
			if o := env.T.Owner(s); o != nil && o != down {
				return s
			}
		}
	}
	badSlot := func() int {
		if rng.Intn(2) == 0 {
			return gapLo + rng.Intn(gapHi-gapLo+1)
		}
		return slotOf(down, rng)
	}
	episodes := c.Pick(16, 300)
	for ep := 0; ep < episodes; ep++ {
		if !env.P.Alive() {
			c.Violate(Violation{Class: "proxy-died", Shape: "chaos", Detail: env.P.PanicLine(), Witness: env.P.OutputTail(3000)})
			return
		}
		sc := scen[ep%len(scen)]
		if f := os.Getenv("C03_SCEN"); f != "" {
			sc = f
		}
		nclients := 3 + rng.Intn(c.Pick(5, 13))
		clients := make([]*c03client, nclients)
		for i := range clients {
			clients[i] = newC03client(env)
		}
		var pairNodes []*Node // nodes on which two gated fragments of one request wait
		var gates []*Gate
		gate := func(key string) {
			g := NewGate()
			script.Plan(key).Gate = g
			gates = append(gates, g)
		}
		var allKeys []string
		track := func(keys ...string) { allKeys = append(allKeys, keys...) }
		switch sc {
		case "P":
			// client 0: multi-key requests that fail routing after fragments were queued,
			// other clients' requests right behind so that recycled request objects are reused
			for round := 0; round < 4; round++ {
				a := clients[0]
				slots := []int{goodSlot(), goodSlot(), badSlot()}
				rng.Shuffle(len(slots), func(i, j int) { slots[i], slots[j] = slots[j], slots[i] })
				keys := a.mget(slots...)
				track(keys...)
				for _, k := range keys {
					gate(k)
				}
				for _, b := range clients[1:] {
					switch rng.Intn(3) {
					case 0:
						keys := b.mget(goodSlot(), goodSlot())
						track(keys...)
						if rng.Intn(2) == 0 {
							gate(keys[0])
						}
					default:
						k := b.get(goodSlot())
						track(k)
						if rng.Intn(2) == 0 {
							gate(k)
						}
					}
				}
				if rng.Intn(2) == 0 {
					env.Barrier()
				}
			}
		case "O":
			// a fragment reply larger than the configured limit completes a split request with
			// an error while its sibling fragment is still outstanding (gated)
			for round := 0; round < 3; round++ {
				a := clients[0]
				s1 := goodSlot()
				s2 := goodSlot()
				for env.T.Owner(s2) == env.T.Owner(s1) {
					s2 = goodSlot()
				}
				keys := a.mget(s1, s2)
				track(keys...)
				big := BulkReply(make([]byte, 70000))
				script.Plan(keys[0]).Act = func(*BReq) Action { return Action{Reply: ArrayReply(big)} }
				gate(keys[1])
				env.Barrier()
				for _, b := range clients[1:] {
					k := b.get(goodSlot())
					track(k)
					if rng.Intn(2) == 0 {
						gate(k)
					}
				}
			}
		case "D":
			for _, a := range clients {
				for i := 0; i < 1+rng.Intn(6); i++ {
					k := a.get(goodSlot())
					track(k)
					gate(k)
					if rng.Intn(3) == 0 {
						a.del(goodSlot(), goodSlot(), goodSlot()) // completes at once, waits behind the gated GET
					}
				}
			}
			env.Barrier()
			// half of them abort; new clients connect at once and reuse the descriptors
			for i := 0; i < nclients/2; i++ {
				clients[i].cl.Abort()
			}
			for i := 0; i < nclients/2; i++ {
				n := newC03client(env)
				clients = append(clients, n)
				for j := 0; j < 1+rng.Intn(4); j++ {
					k := n.get(goodSlot())
					track(k)
					if rng.Intn(2) == 0 {
						gate(k)
					}
				}
			}
		case "K":
			for _, a := range clients {
				for i := 0; i < 1+rng.Intn(5); i++ {
					if rng.Intn(3) == 0 {
						// two of the three fragments wait on the same node (different slots), so
						// that one lost connection carries two fragments of one request
						s1 := goodSlot()
						s2 := goodSlot()
						for tries := 0; tries < 200 && (s2 == s1 || env.T.Owner(s2) != env.T.Owner(s1)); tries++ {
							s2 = goodSlot()
						}
						keys := a.mget(s1, s2, goodSlot())
						track(keys...)
						if rng.Intn(2) == 0 {
							gate(keys[0])
							gate(keys[1])
							pairNodes = append(pairNodes, env.T.Owner(s1).Node)
						} else {
							gate(keys[rng.Intn(3)])
						}
					} else {
						k := a.get(goodSlot())
						track(k)
						gate(k)
					}
					if rng.Intn(3) == 0 {
						a.del(goodSlot(), goodSlot())
						k := a.get(goodSlot()) // a short reply right behind the merged integer
						track(k)
					}
				}
			}
			env.Barrier()
			victim := env.Cl.Nodes[rng.Intn(4)]
			if len(pairNodes) > 0 && rng.Intn(4) != 0 {
				victim = pairNodes[rng.Intn(len(pairNodes))]
			}
			pairNodes = nil
			victim.KillConns()
			if hs {
				// the replicas' connections as well (node 4 and its replica aside)
				for i := 0; i < 2; i++ {
					if v := env.Cl.Nodes[6+rng.Intn(4)]; v != nil {
						v.KillConns()
					}
				}
			}
			env.Barrier()
			for _, a := range clients {
				k := a.get(goodSlot())
				track(k)
			}
		case "T":
			for _, a := range clients {
				for i := 0; i < 1+rng.Intn(4); i++ {
					if rng.Intn(3) == 0 {
						keys := a.mget(goodSlot(), goodSlot())
						track(keys...)
						gate(keys[rng.Intn(2)])
					} else {
						k := a.get(goodSlot())
						track(k)
						if rng.Intn(2) == 0 {
							gate(k)
						}
					}
				}
			}
			// let the stalled ones time out, then send more (recycled objects), then late replies
			time.Sleep(time.Duration(timeout+1300) * time.Millisecond)
			env.Barrier()
			for _, a := range clients {
				for i := 0; i < 2; i++ {
					k := a.get(goodSlot())
					track(k)
				}
			}
		}
		env.Barrier()
		rng.Shuffle(len(gates), func(i, j int) { gates[i], gates[j] = gates[j], gates[i] })
		for i, g := range gates {
			g.Open()
			if i%4 == 0 {
				env.Barrier()
			}
		}
		// after the late replies more traffic on every live connection
		for _, a := range clients {
			if !a.cl.IsClosed() {
				k := a.get(goodSlot())
				track(k)
			}
		}
		env.Barrier()
		time.Sleep(20 * time.Millisecond)
		env.Barrier()
		for _, a := range clients {
			a.judge(c, sc)
			a.cl.Close()
		}
		script.Forget(allKeys...)
		c.Eval(1)
		c.Distinct(fmt.Sprintf("%s/%d/%d/t%d", sc, nclients, len(gates), timeout))
		if ep < 2 {
			c.Sample(map[string]interface{}{"scenario": sc, "clients": len(clients), "gated_replies": len(gates), "timeout_ms": timeout, "first_client_requests": clients[0].sent})
		}
	}
	c.Count("race_reports_diagnostic", int64(env.P.RaceReports()))
}
