package main

import (
	"bytes"
	"fmt"
	"math/rand"
	"sort"
	"strings"
	"sync"
	"time"

	. "vcheck/lib"
)

func init() { register("C17", "exploration", runC17) }

func runC17(c *Check, rng *rand.Rand) {
	c.Rule = "every command name of docs/command.md (Yes and No rows) + random names x random letter case x argument counts 0..6 (7..40 for variadic; valid count + 256, + 512 and sometimes + 65536 for every documented command), each followed by a sentinel request; request sizes limit-1, limit, limit+1 alone and inside pipelines whose total exceeds the limit while every member is below it, for limits 64, 4096 and the default; backend replies of size limit-1, limit, limit+1 (single-key and merged MGET); oracle: served iff (name in documented set + AUTH) and arity rule and own encoded size <= limit; distinct = (name, argc, verdict) / (limit, size case)"
	c.Assumptions = []string{
		"supported set = 'Yes' rows parsed from /repo/docs/command.md at run time + AUTH; it must equal the frozen table in /verif/harness/lib/cmdtab.go, whose arity classes transcribe the documented rule classes",
		"'served' for AUTH is judged on a proxy configured with a password (AUTH <password> -> +OK)",
	}
	yes, no, err := DocCommands(RepoDir + "/docs/command.md")
	must(err, "parse docs/command.md")
	// frozen table == documented set
	docSet := map[string]bool{"auth": true}
	for _, y := range yes {
		docSet[y] = true
	}
	for n := range CmdTable {
		if !docSet[n] {
			c.Violate(Violation{Class: "reference-tables-disagree", Shape: n, Detail: "frozen table has " + n + " but docs/command.md does not list it as supported"})
		}
	}
	for n := range docSet {
		if _, ok := CmdTable[n]; !ok {
			c.Violate(Violation{Class: "reference-tables-disagree", Shape: n, Detail: "docs/command.md lists " + n + " as supported but the frozen table does not have it"})
		}
	}
	var wg sync.WaitGroup
	run := func(f func()) {
		wg.Add(1)
		go func() {
			defer wg.Done()
			defer func() {
				if r := recover(); r != nil {
					if ie, ok := r.(infraErr); ok {
						c.Inconclusive("%s", string(ie))
						return
					}
					panic(r)
				}
			}()
			f()
		}()
	}
	seed := c.Seed
	run(func() { c17sweep(c, rand.New(rand.NewSource(seed*3+1)), yes, no) })
	limits := []int{64, 4096, 0}
	if c.Thorough() {
		limits = []int{64, 200, 4096, 65536, 0}
	}
	for i, l := range limits {
		l := l
		i := i
		run(func() { c17sizes(c, rand.New(rand.NewSource(seed*7+int64(i))), l) })
	}
	wg.Wait()
	c.MinEvals = 1000
}

type c17item struct {
	raw      []byte
	name     string
	argc     int
	served   bool
	local    string // "ping", "auth" or ""
	tok      string
	sentinel string
}

func c17sweep(c *Check, rng *rand.Rand, yes, no []string) {
	env, err := NewEnv(EnvOpt{Masters: 3, Cfg: ProxyCfg{Password: "hunter2"}})
	must(err, "start env")
	defer env.Close()
	env.Cl.SetHandler(func(r *BReq) Action { return Action{Reply: ValueReply(r)} })
	names := append([]string{}, yes...)
	names = append(names, no...)
	names = append(names, "auth")
	for i := 0; i < 60; i++ {
		l := 1 + rng.Intn(12)
		b := make([]byte, l)
		for j := range b {
			b[j] = "abcdefghijklmnopqrstuvwxyz_-1"[rng.Intn(29)]
		}
		names = append(names, string(b))
	}
	names = append(names, "ge", "gett", "get ", " get", "g\x00et", "mget\r", "")
	sort.Strings(names)
	var items []c17item
	for _, n := range names {
		if n == "quit" {
			continue
		}
		ci, known := CmdTable[n]
		argcs := []int{0, 1, 2, 3, 4, 5, 6}
		if known && (ci.Arity == ArInf || ci.Arity == ArEven || ci.Arity == ArEval) {
			argcs = append(argcs, 7, 8, 9+rng.Intn(10), 20+rng.Intn(21))
		}
		if known {
			// counts that equal a valid one modulo 256 (and, now and then, modulo 65536):
			// an argument count kept in a narrow integer would accept them
			base := MinimalArgs(ci.Arity)
			argcs = append(argcs, base+256, base+512)
			if rng.Intn(12) == 0 {
				argcs = append(argcs, base+65536)
			}
		}
		for _, ac := range argcs {
			tok := newToken("a")
			args := [][]byte{randCase(rng, n)}
			for k := 0; k < ac; k++ {
				a := fmt.Sprintf("%s.%d", tok, k)
				if known && ci.Role == RoleScript && k == 1 {
					a = "1"
				}
				if n == "auth" && k == 0 && ac == 1 {
					a = "hunter2"
				}
				args = append(args, []byte(a))
			}
			it := c17item{raw: EncodeReq(args...), name: n, argc: ac, tok: tok, sentinel: newToken("sent")}
			it.served = known && ArityOK(ci.Arity, ac)
			if known && ci.Role == RoleLocal {
				it.local = n
			}
			items = append(items, it)
		}
	}
	rng.Shuffle(len(items), func(i, j int) { items[i], items[j] = items[j], items[i] })
	// the same command name twice in a row with different verdicts (valid then invalid
	// arity and the other way round), also across batches
	{
		var pairs []c17item
		mkItem := func(n string, ac int) c17item {
			tok := newToken("a")
			ci := CmdTable[n]
			args := [][]byte{randCase(rng, n)}
			for k := 0; k < ac; k++ {
				a := fmt.Sprintf("%s.%d", tok, k)
				if ci.Role == RoleScript && k == 1 {
					a = "1"
				}
				args = append(args, []byte(a))
			}
			it := c17item{raw: EncodeReq(args...), name: n, argc: ac, tok: tok, sentinel: newToken("sent")}
			it.served = ArityOK(ci.Arity, ac)
			return it
		}
		for _, n := range []string{"get", "set", "setex", "hset", "lrange", "mset", "eval", "expire", "zadd", "linsert"} {
			ok := MinimalArgs(CmdTable[n].Arity)
			badc := ok + 1
			if CmdTable[n].Arity == ArInf || CmdTable[n].Arity == ArEval || CmdTable[n].Arity == ArEven {
				badc = ok - 1
			}
			pairs = append(pairs, mkItem(n, ok), mkItem(n, badc), mkItem(n, ok), mkItem(n, ok), mkItem(n, badc), mkItem(n, badc), mkItem(n, ok))
		}
		items = append(pairs, items...)
	}
	cl, err := env.Dial()
	must(err, "dial")
	defer func() { cl.Close() }()
	got := 0
	for i := 0; i < len(items); i += 40 {
		j := i + 40
		if j > len(items) {
			j = len(items)
		}
		batch := items[i:j]
		var b []byte
		alone := i%400 == 0 // some batches one request per write
		before := env.Cl.LogLen()
		for _, it := range batch {
			b = append(b, it.raw...)
			b = append(b, Req("GET", it.sentinel)...)
			if alone {
				cl.Send(b)
				b = b[:0]
				got += 2
				cl.WaitReplies(got, 5*time.Second)
			}
		}
		if !alone {
			cl.Send(b)
			got += 2 * len(batch)
		}
		if !cl.WaitReplies(got, 10*time.Second) {
			s := cl.Snapshot()
			if !env.P.Alive() {
				c.Violate(Violation{Class: "proxy-died", Shape: "command-sweep", Detail: env.P.PanicLine(), Witness: map[string]interface{}{"batch_first": Q(batch[0].raw)}})
				return
			}
			c.Violate(Violation{Class: "missing-replies-in-sweep", Shape: "command-sweep", Detail: fmt.Sprintf("batch of %d requests + sentinels: %d of %d replies (closed=%v garbage=%q)", len(batch), len(s.Replies)-(got-2*len(batch)), 2*len(batch), s.Closed, s.GarbErr),
				Witness: map[string]interface{}{"first_request": Q(batch[0].raw)}})
			cl.Close()
			cl, err = env.Dial()
			must(err, "redial")
			got = 0
			continue
		}
		log := env.Cl.Log()[before:]
		atBackend := map[string]*BReq{}
		for _, r := range log {
			for _, a := range r.Args[1:] {
				if k := bytes.IndexByte(a, '.'); k > 0 {
					atBackend[string(a[:k])] = r
				} else {
					atBackend[string(a)] = r
				}
			}
		}
		s := cl.Snapshot()
		base := got - 2*len(batch)
		for k, it := range batch {
			rv := s.Replies[base+2*k].Val
			sv := s.Replies[base+2*k+1].Val
			_, fwd := atBackend[it.tok]
			verdict := "rejected"
			if it.served {
				verdict = "served"
			}
			c.Eval(1)
			c.Distinct(fmt.Sprintf("%s/%d/%s", it.name, it.argc, verdict))
			wit := map[string]interface{}{"request": Q(it.raw), "reply": rv.String(), "forwarded": fwd, "reference_verdict": verdict}
			shape := fmt.Sprintf("%s/argc=%d", it.name, it.argc)
			switch {
			case it.served && it.local == "ping":
				if !bytes.Equal(rv.Raw, StatusReply("PONG")) || fwd {
					c.Violate(Violation{Class: "supported-request-not-served", Shape: shape, Detail: "PING answered " + rv.String(), Witness: wit})
				}
			case it.served && it.local == "auth":
				if !bytes.Equal(rv.Raw, StatusReply("OK")) || fwd {
					c.Violate(Violation{Class: "supported-request-not-served", Shape: shape, Detail: "AUTH <password> answered " + rv.String(), Witness: wit})
				}
			case it.served:
				if !fwd {
					c.Violate(Violation{Class: "supported-request-not-served", Shape: shape, Detail: "supported request with valid arity was not forwarded; client got " + rv.String(), Witness: wit})
				} else if r := atBackend[it.tok]; !bytes.Equal(rv.Raw, ValueReply(r)) && CmdTable[it.name].Multi == "" {
					c.Violate(Violation{Class: "supported-request-not-served", Shape: shape, Detail: "forwarded, but the client got " + rv.String() + " instead of the backend's reply", Witness: wit})
				}
			default:
				if fwd {
					c.Violate(Violation{Class: "unsupported-request-forwarded", Shape: shape, Detail: "request outside the documented set / arity reached a backend", Witness: wit})
				} else if rv.Kind != '-' {
					c.Violate(Violation{Class: "unsupported-request-not-rejected", Shape: shape, Detail: "expected an error reply, got " + rv.String(), Witness: wit})
				}
			}
			if !bytes.Equal(sv.Raw, BulkReply([]byte("v:"+it.sentinel))) {
				c.Violate(Violation{Class: "following-request-disturbed", Shape: shape, Detail: "the sentinel request after it got " + sv.String(), Witness: wit})
			}
			if k == 0 && i == 0 {
				c.Sample(wit)
			}
		}
		c.Count("sweep_requests_judged", int64(len(batch)))
	}
	c17authUncovered(c, rng)
	// QUIT: served locally, in every letter case, with and without arguments
	for _, q := range [][]string{{"QUIT"}, {"quit"}, {"QuIt"}, {"quit", "x"}} {
		qc, err := env.Dial()
		must(err, "dial")
		qc.Send(append(Req(q...), Req("GET", "afterquit")...))
		qc.WaitReplies(1, 3*time.Second)
		s := qc.Snapshot()
		c.Eval(1)
		if len(q) == 1 {
			if len(s.Replies) < 1 || !bytes.Equal(s.Replies[0].Val.Raw, StatusReply("OK")) {
				c.Violate(Violation{Class: "supported-request-not-served", Shape: "quit/argc=0", Detail: fmt.Sprintf("QUIT not answered +OK: %v", valStrings(s.Replies))})
			}
		} else if len(s.Replies) < 1 || s.Replies[0].Val.Kind != '-' {
			c.Violate(Violation{Class: "unsupported-request-not-rejected", Shape: "quit/argc=1", Detail: fmt.Sprintf("QUIT with an argument: %v", valStrings(s.Replies))})
		}
		qc.Close()
	}
}

// bulkLenFor returns the payload length L such that "$L\r\n<L bytes>\r\n" is
// exactly n bytes long (-1 if impossible).
func bulkLenFor(n int) int {
	for d := 1; d <= 9; d++ {
		l := n - 1 - d - 2 - 2
		if l >= 0 && len(fmt.Sprint(l)) == d {
			return l
		}
	}
	return -1
}

// sizedGet builds a GET request of exactly n encoded bytes whose key starts with tok.
func sizedGet(n int, tok string) []byte {
	l := bulkLenFor(n - len("*2\r\n$3\r\nGET\r\n"))
	if l < len(tok) {
		return nil
	}
	return Req("GET", tok+strings.Repeat("k", l-len(tok)))
}

func sizedBulk(n int) []byte {
	l := bulkLenFor(n)
	if l < 0 {
		return nil
	}
	return BulkReply(bytes.Repeat([]byte("r"), l))
}

func c17sizes(c *Check, rng *rand.Rand, limit int) {
	env, err := NewEnv(EnvOpt{Masters: 3, Cfg: ProxyCfg{MsgMax: limit}})
	must(err, "start env")
	defer env.Close()
	script := NewScript()
	env.Cl.SetHandler(script.Handler)
	eff := limit
	if eff == 0 {
		eff = 6 * 1024 * 1024
	}
	lname := fmt.Sprintf("limit=%d", eff)
	one := func(raw []byte, tok string, wantServed bool, label string) {
		cl, err := env.Dial()
		must(err, "dial")
		defer cl.Close()
		sent := newToken("sz")
		before := env.Cl.LogLen()
		cl.Send(append(append([]byte(nil), raw...), Req("GET", sent)...))
		ok := cl.WaitReplies(2, 15*time.Second)
		s := cl.Snapshot()
		fwd := false
		for _, r := range env.Cl.Log()[before:] {
			for _, a := range r.Args[1:] {
				if strings.HasPrefix(string(a), tok) {
					fwd = true
				}
			}
		}
		c.Eval(1)
		c.Distinct(lname + "/" + label)
		wit := map[string]interface{}{"limit": eff, "request_size": len(raw), "case": label, "received": valStrings(s.Replies), "forwarded": fwd}
		if !ok {
			c.Violate(Violation{Class: "missing-replies-size-case", Shape: lname + "/" + label, Detail: fmt.Sprintf("%d of 2 replies", len(s.Replies)), Witness: wit})
			return
		}
		rv := s.Replies[0].Val
		if wantServed && (!fwd || rv.Kind == '-') {
			c.Violate(Violation{Class: "request-within-limit-rejected", Shape: lname + "/" + label, Detail: fmt.Sprintf("request of %d bytes (limit %d) answered %s, forwarded=%v", len(raw), eff, rv.String(), fwd), Witness: wit})
		}
		if !wantServed && (fwd || rv.Kind != '-') {
			c.Violate(Violation{Class: "request-over-limit-served", Shape: lname + "/" + label, Detail: fmt.Sprintf("request of %d bytes (limit %d) answered %s, forwarded=%v", len(raw), eff, rv.String(), fwd), Witness: wit})
		}
		if !bytes.Equal(s.Replies[1].Val.Raw, BulkReply([]byte("v:"+sent))) {
			c.Violate(Violation{Class: "following-request-disturbed", Shape: lname + "/" + label, Detail: "sentinel got " + s.Replies[1].Val.String(), Witness: wit})
		}
	}
	for _, d := range []int{-1, 0, 1} {
		tok := newToken("z")
		raw := sizedGet(eff+d, tok)
		if raw == nil {
			continue
		}
		one(raw, tok, d <= 0, fmt.Sprintf("request-alone/limit%+d", d))
	}
	// an oversize request that arrives in two reads, the first piece already above the
	// limit: one "too large" error for it, the following request is undisturbed
	for k := 0; k < 3 && eff < 3000000; k++ {
		tok := newToken("o")
		raw := sizedGet(eff+50+rng.Intn(eff), tok)
		if raw == nil {
			continue
		}
		cl, err := env.Dial()
		must(err, "dial")
		sent := newToken("sz")
		cut := eff + 10 + rng.Intn(len(raw)-eff-20)
		cl.Send(raw[:cut])
		env.Barrier()
		time.Sleep(5 * time.Millisecond)
		cl.Send(append(append([]byte(nil), raw[cut:]...), Req("GET", sent)...))
		ok := cl.WaitReplies(2, 10*time.Second)
		s := cl.Snapshot()
		c.Eval(1)
		label := "oversize-request-in-two-reads"
		c.Distinct(fmt.Sprintf("%s/%s/%d", lname, label, k))
		wit := map[string]interface{}{"limit": eff, "request_size": len(raw), "first_piece": cut, "received": valStrings(s.Replies), "closed": s.Closed}
		switch {
		case !ok:
			c.Violate(Violation{Class: "following-request-disturbed", Shape: lname + "/" + label, Detail: fmt.Sprintf("oversize request sent in two pieces: %d of 2 replies (closed=%v)", len(s.Replies), s.Closed), Witness: wit})
		case s.Replies[0].Val.Kind != '-':
			c.Violate(Violation{Class: "request-over-limit-served", Shape: lname + "/" + label, Detail: "oversize request answered " + s.Replies[0].Val.String(), Witness: wit})
		case !bytes.Equal(s.Replies[1].Val.Raw, BulkReply([]byte("v:"+sent))):
			c.Violate(Violation{Class: "following-request-disturbed", Shape: lname + "/" + label, Detail: "sentinel got " + s.Replies[1].Val.String(), Witness: wit})
		}
		cl.Close()
	}
	// split requests: the request's own size is over the limit although every
	// per-slot fragment is below it (and the other way round for limit-1 / limit)
	for _, kind := range []string{"mget", "del", "mset"} {
		for _, d := range []int{-1, 0, 1, 7} {
			tok := newToken("s")
			target := eff + d
			var args []string
			build := func(pad int) []byte {
				args = []string{kind}
				for i := 0; i < 3; i++ {
					k := Key(100+i*5000, tok+"."+itoa(i))
					if i == 0 {
						k += strings.Repeat("k", pad)
					}
					args = append(args, k)
					if kind == "mset" {
						args = append(args, "v")
					}
				}
				return Req(args...)
			}
			base := len(build(0))
			if target < base {
				continue
			}
			raw := build(target - base)
			for adj := 0; len(raw) != target && adj < 4; adj++ { // the length field may grow by a digit
				raw = build(target - base - (len(raw) - target))
			}
			if len(raw) != target {
				continue
			}
			one(raw, "{"+SlotTag(100)+"}"+tok, d <= 0, fmt.Sprintf("split-%s/limit%+d", kind, d))
		}
	}
	// pipelines whose total exceeds the limit while every member is below it
	for k := 0; k < c.Pick(6, 40); k++ {
		cl, err := env.Dial()
		must(err, "dial")
		var b []byte
		var toks []string
		n := 0
		memberSize := 40 + rng.Intn(20)
		if eff > 1000 {
			memberSize = eff/3 + rng.Intn(eff/3)
		}
		if memberSize > eff {
			memberSize = eff
		}
		for len(b) <= eff+memberSize || n < 3 {
			tok := newToken("p")
			r := sizedGet(memberSize, tok)
			if r == nil {
				r = Req("GET", tok)
			}
			b = append(b, r...)
			toks = append(toks, tok)
			n++
			if n > 400 {
				break
			}
		}
		cl.Send(b)
		ok := cl.WaitReplies(n, 20*time.Second)
		s := cl.Snapshot()
		c.Eval(1)
		label := "pipeline-total-exceeds-limit"
		c.Distinct(fmt.Sprintf("%s/%s/%d/%d", lname, label, n, memberSize))
		wit := map[string]interface{}{"limit": eff, "members": n, "member_size": memberSize, "total": len(b), "received_head": valStrings(s.Replies[:minInt(len(s.Replies), 6)])}
		if !ok {
			c.Violate(Violation{Class: "missing-replies-size-case", Shape: lname + "/" + label, Detail: fmt.Sprintf("%d of %d replies", len(s.Replies), n), Witness: wit})
		} else {
			for i := 0; i < n; i++ {
				if s.Replies[i].Val.Kind == '-' {
					wit["position"] = i
					c.Violate(Violation{Class: "request-within-limit-rejected", Shape: lname + "/" + label,
						Detail:  fmt.Sprintf("member %d of a pipeline (%d bytes each, total %d, limit %d) answered %s", i, memberSize, len(b), eff, s.Replies[i].Val.String()),
						Witness: wit})
					break
				}
			}
			if k == 0 {
				c.Sample(wit)
			}
		}
		cl.Close()
	}
	// replies around the limit
	for _, d := range []int{-1, 0, 1} {
		rep := sizedBulk(eff + d)
		if rep == nil {
			continue
		}
		tok := newToken("y")
		script.Plan(tok).Act = func(r *BReq) Action { return Action{Reply: rep} }
		cl, err := env.Dial()
		must(err, "dial")
		cl.Send(Req("GET", tok))
		ok := cl.WaitReplies(1, 20*time.Second)
		c.Eval(1)
		label := fmt.Sprintf("reply-single/limit%+d", d)
		c.Distinct(lname + "/" + label)
		if !ok {
			c.Violate(Violation{Class: "missing-replies-size-case", Shape: lname + "/" + label, Detail: "no reply"})
		} else {
			v := cl.Snapshot().Replies[0].Val
			if d <= 0 && !bytes.Equal(v.Raw, rep) {
				c.Violate(Violation{Class: "reply-within-limit-replaced", Shape: lname + "/" + label, Detail: fmt.Sprintf("backend reply of %d bytes (limit %d) reached the client as %s", len(rep), eff, v.String())})
			}
			if d > 0 && v.Kind != '-' {
				c.Violate(Violation{Class: "reply-over-limit-delivered", Shape: lname + "/" + label, Detail: fmt.Sprintf("backend reply of %d bytes (limit %d) was delivered", len(rep), eff)})
			}
		}
		cl.Close()
		script.Forget(tok)
	}
	// merged MGET replies around the limit: 2 keys on 2 nodes
	for _, d := range []int{-1, 0, 1} {
		tok := newToken("x")
		k1, k2 := Key(100, tok+".1"), Key(9000, tok+".2")
		// merged = "*2\r\n" + bulk(v1) + bulk(v2)
		target := eff + d
		var v1, v2 []byte
		found := false
		// "*2\r\n" + bulk(v1) + bulk(v2): fix v1 = 10 bytes, size v2
		v1 = bytes.Repeat([]byte("m"), 10)
		if l := bulkLenFor(target - 4 - len(BulkReply(v1))); l >= 0 {
			v2 = bytes.Repeat([]byte("n"), l)
			found = len(ArrayReply(BulkReply(v1), BulkReply(v2))) == target
		}
		if !found {
			continue
		}
		r1, r2 := ArrayReply(BulkReply(v1)), ArrayReply(BulkReply(v2))
		script.Plan(k1).Act = func(r *BReq) Action { return Action{Reply: r1} }
		script.Plan(k2).Act = func(r *BReq) Action { return Action{Reply: r2} }
		want := ArrayReply(BulkReply(v1), BulkReply(v2))
		cl, err := env.Dial()
		must(err, "dial")
		cl.Send(Req("MGET", k1, k2))
		ok := cl.WaitReplies(1, 20*time.Second)
		c.Eval(1)
		label := fmt.Sprintf("reply-merged-mget/limit%+d", d)
		c.Distinct(lname + "/" + label)
		if !ok {
			c.Violate(Violation{Class: "missing-replies-size-case", Shape: lname + "/" + label, Detail: "no reply"})
		} else {
			v := cl.Snapshot().Replies[0].Val
			if d <= 0 && !bytes.Equal(v.Raw, want) {
				c.Violate(Violation{Class: "reply-within-limit-replaced", Shape: lname + "/" + label, Detail: fmt.Sprintf("merged MGET reply of %d bytes (limit %d) reached the client as %s", len(want), eff, v.String())})
			}
			if d > 0 && v.Kind != '-' {
				c.Violate(Violation{Class: "reply-over-limit-delivered", Shape: lname + "/" + label, Detail: fmt.Sprintf("merged MGET reply of %d bytes (limit %d) was delivered", len(want), eff)})
			}
		}
		cl.Close()
		script.Forget(k1, k2)
	}
	if !env.P.Alive() {
		c.Violate(Violation{Class: "proxy-died", Shape: lname, Detail: env.P.PanicLine(), Witness: env.P.OutputTail(2000)})
	}
}

// c17authUncovered: AUTH is answered by the proxy itself whatever the topology: here
// a slot range has no owner and the passwords tried hash into it.
func c17authUncovered(c *Check, rng *rand.Rand) {
	env, err := NewEnv(EnvOpt{Masters: 3, Cfg: ProxyCfg{Password: "hunter2"}, Topo: func(cl *Cluster) *Topo {
		t := EvenTopo(cl, 3, 0)
		r := t.Nodes[2].Slots[0]
		t.Nodes[2].Slots[0] = [2]int{r[0], 15000}
		return t
	}})
	must(err, "start env")
	defer env.Close()
	cl, err := env.Dial()
	must(err, "dial")
	defer cl.Close()
	got := 0
	for i := 0; i < 400; i++ {
		pw := fmt.Sprintf("pw%d", rng.Intn(1000000))
		if i%10 == 0 {
			pw = "hunter2"
		}
		uncovered := KeySlot([]byte(pw)) > 15000
		cl.Send(Req("AUTH", pw))
		got++
		if !cl.WaitReplies(got, 3*time.Second) {
			c.Violate(Violation{Class: "supported-request-not-served", Shape: "auth/uncovered-slot", Detail: "AUTH not answered"})
			return
		}
		v := cl.Snapshot().Replies[got-1].Val
		c.Eval(1)
		c.Distinct(fmt.Sprintf("auth/uncovered=%v/correct=%v", uncovered, pw == "hunter2"))
		want := "-ERR invalid password"
		if pw == "hunter2" {
			want = "+OK"
		}
		if v.String() != want {
			c.Violate(Violation{Class: "supported-request-not-served", Shape: "auth/uncovered-slot",
				Detail:  fmt.Sprintf("AUTH %s (password hashes to slot %d, owned=%v) answered %s, expected %s from the proxy itself", pw, KeySlot([]byte(pw)), !uncovered, v.String(), want),
				Witness: map[string]interface{}{"password": pw, "slot": KeySlot([]byte(pw))}})
			return
		}
	}
}
