package main

import (
	"bytes"
	"fmt"
	"math/rand"
	"sync/atomic"
	"time"

	. "vcheck/lib"
)

func init() { register("C11", "fault_enumeration", runC11) }

var c11errors = []string{
	"ERR value is not an integer or out of range",
	"WRONGTYPE Operation against a key holding the wrong kind of value",
	"LOADING Redis is loading the dataset in memory",
	"CLUSTERDOWN The cluster is down",
	"TRYAGAIN Multiple keys request during rehashing of slot",
	"CROSSSLOT Keys in request don't hash to the same slot",
	"READONLY You can't write against a read only replica.",
	"BUSY Redis is busy running a script. You can only call SCRIPT KILL or SHUTDOWN NOSAVE.",
	"NOSCRIPT No matching script. Please use EVAL.",
	"OOM command not allowed when used memory > 'maxmemory'.",
	"MISCONF Redis is configured to save RDB snapshots, but it is currently not able to persist on disk.",
	"MASTERDOWN Link with MASTER is down and replica-serve-stale-data is set to 'no'.",
	"NOREPLICAS Not enough good replicas to write.",
	"EXECABORT Transaction discarded because of previous errors.",
	// texts that share a prefix with the errors the proxy itself acts on
	"ERR invalid expire time in 'set' command",
	"ERR invalid cursor",
	"ERR invalid DB index",
	"ERR syntax error",
	"ERR no such key",
	"ERR Client sent something unexpected",
	"ERR AUTHENTICATION is not what this is about",
	"NOPERM this user has no permissions to run the 'set' command",
	"NOAUTHORITY custom module error",
	"ERR",
	"ERR value is not a valid float",
	"NOTBUSY No scripts in execution right now.",
	"UNKILLABLE Sorry the script already executed write commands against the dataset.",
}

func runC11(c *Check, rng *rand.Rand) {
	c.Rule = "fault enumeration: every error prefix x {single-key, MGET, DEL, MSET}; for split requests with F <= Fmax fragments every non-empty subset of fragments answered with an error x every arrival order (F <= 3) or sampled orders; oracle: single-key -> the error verbatim, split -> an error reply for the whole request; never a success value, never a dead or stalled proxy; distinct = (kind, F, erroring subset, arrival order, error prefix)"
	c.Assumptions = []string{"'no reply' is judged after every fragment was answered, the event-loop barrier passed, 1 s elapsed and a second barrier passed"}
	env, err := NewEnv(EnvOpt{Masters: 8})
	must(err, "start env")
	defer env.Close()
	script := NewScript()
	env.Cl.SetHandler(script.Handler)
	deaths := map[string]int{}
	restart := func() {
		must(env.Restart(), "restart proxy after crash")
		env.Cl.SetHandler(script.Handler)
	}
	// single-key, verbatim
	singles := SingleKeyCommands()
	for i, e := range c11errors {
		for k := 0; k < c.Pick(3, 20); k++ {
			cmd := singles[(i*7+k*13)%len(singles)]
			tok := newToken("e")
			rep := ErrReply(e)
			script.Plan(tok).Act = func(r *BReq) Action { return Action{Reply: rep} }
			cl, err := env.Dial()
			must(err, "dial")
			raw := EncodeReq(genCommand(rng, cmd, []byte(tok), 0)...)
			cl.Send(raw)
			ok := cl.WaitReplies(1, 5*time.Second)
			c.Eval(1)
			c.Distinct("single/" + cmd + "/" + e[:minInt(len(e), 12)])
			if !ok {
				if !env.P.Alive() {
					c.Violate(Violation{Class: "proxy-died", Shape: "single-key", Detail: env.P.PanicLine(), Witness: map[string]interface{}{"request": Q(raw), "backend_reply": Q(rep)}})
					restart()
				} else {
					c.Violate(Violation{Class: "no-reply-after-backend-error", Shape: "single-key", Detail: "no reply to " + Q(raw) + " after the backend answered " + Q(rep)})
				}
			} else if got := cl.Snapshot().Replies[0].Val.Raw; !bytes.Equal(got, rep) {
				c.Violate(Violation{Class: "error-not-verbatim", Shape: "single-key", Detail: fmt.Sprintf("backend error %s reached the client as %s", Q(rep), Q(got)), Witness: map[string]interface{}{"request": Q(raw)}})
			} else {
				c.Count("single_key_errors_verbatim", 1)
			}
			cl.Close()
			script.Forget(tok)
		}
	}
	// split
	fmax := c.Pick(3, 4)
	type cs struct {
		kind string
		f    int
		mask int
		perm []int
	}
	var cases []cs
	for _, kind := range []string{"mget", "del", "mset"} {
		for f := 1; f <= fmax; f++ {
			perms := permutations(f)
			if f > 3 {
				perms = perms[:6]
			}
			for mask := 1; mask < 1<<f; mask++ {
				for _, p := range perms {
					cases = append(cases, cs{kind, f, mask, p})
				}
			}
		}
	}
	for i := 0; i < c.Pick(30, 400); i++ { // larger random ones
		f := 5 + rng.Intn(20)
		mask := 0
		for b := 0; b < f; b++ {
			if rng.Intn(4) == 0 {
				mask |= 1 << b
			}
		}
		if mask == 0 {
			mask = 1 << rng.Intn(f)
		}
		cases = append(cases, cs{[]string{"mget", "del", "mset"}[rng.Intn(3)], f, mask, rng.Perm(f)})
	}
	for ci, cse := range cases {
		shape := fmt.Sprintf("%s/error-fragment", cse.kind)
		if deaths[shape] >= 3 {
			c.Count("cases_skipped_after_3_proxy_deaths_of_same_shape", 1)
			continue
		}
		r := c07gen(rng, cse.kind, cse.f, cse.f+rng.Intn(cse.f+1), false)
		r.override = map[int][]byte{}
		e := c11errors[(ci*5+cse.mask)%len(c11errors)]
		for b := 0; b < cse.f; b++ {
			if cse.mask&(1<<b) != 0 {
				r.override[r.slots[b]] = ErrReply(e)
			}
		}
		gates := r.install(script, true)
		cl, err := env.Dial()
		must(err, "dial")
		cl.Send(r.raw)
		if err := env.Barrier(); err != nil && env.P.Alive() {
			infra("barrier: %v", err)
		}
		for i, gi := range cse.perm {
			gates[gi].Open()
			if cse.f <= 3 || i < 2 {
				env.Barrier()
			}
		}
		ok := cl.WaitReplies(1, 3*time.Second)
		if !ok && env.P.Alive() {
			env.Barrier()
			time.Sleep(time.Second)
			env.Barrier()
			ok = cl.WaitReplies(1, 500*time.Millisecond)
		}
		wit := map[string]interface{}{"request": Q(r.raw), "fragments": cse.f, "erroring_fragments_mask": maskStr(cse.mask, cse.f), "arrival_order": cse.perm, "error": e}
		c.Eval(1)
		c.Distinct(fmt.Sprintf("%s/%d/%b/%v/%s", cse.kind, cse.f, cse.mask, orderSig(cse.perm), e[:minInt(len(e), 12)]))
		switch {
		case !env.P.Alive():
			deaths[shape]++
			wit["stderr"] = env.P.OutputTail(1500)
			c.Violate(Violation{Class: "proxy-died", Shape: shape, Detail: "proxy crashed after a fragment of a split " + cse.kind + " was answered with an error: " + env.P.PanicLine(), Witness: wit})
			restart()
		case !ok:
			c.Violate(Violation{Class: "no-reply-after-backend-error", Shape: shape, Detail: "client left without a reply although every fragment was answered", Witness: wit})
		default:
			v := cl.Snapshot().Replies[0].Val
			if v.Kind != '-' {
				wit["client_received"] = Q(v.Raw)
				c.Violate(Violation{Class: "error-converted-to-success", Shape: shape, Detail: fmt.Sprintf("split %s with an erroring fragment was answered %s", cse.kind, Q(v.Raw)), Witness: wit})
			} else {
				c.Count("split_errors_surfaced", 1)
			}
		}
		cl.Close()
		r.forget(script)
		if ci%40 == 39 && env.P.Alive() {
			c11witness(c, env, script, rng)
		}
		if ci == 5 {
			c.Sample(wit)
		}
	}
	// a split request completed by one fragment's error, whose sibling then answers with a
	// redirect to a node the proxy knows (or with a late normal reply): the request stays
	// answered with the error, nothing crashes, the next requests are undisturbed
	for i := 0; i < c.Pick(24, 300) && env.P.Alive(); i++ {
		kind := []string{"mget", "del", "mset"}[i%3]
		r := c07genNodes(rng, env, kind, 2, 2+rng.Intn(2), nil) // the two fragments on different nodes
		r.override = map[int][]byte{}
		e := c11errors[(i*3)%len(c11errors)]
		r.override[r.slots[0]] = ErrReply(e)
		other := env.T.Owner(r.slots[0]).Node
		if i%2 == 0 {
			kw := "MOVED"
			if i%4 == 0 {
				kw = "ASK"
			}
			r.override[r.slots[1]] = ErrReply(fmt.Sprintf("%s %d %s", kw, r.slots[1], other.Addr))
		}
		gates := r.install(script, true)
		cl, err := env.Dial()
		must(err, "dial")
		cl.Send(r.raw)
		env.Barrier()
		gates[0].Open() // the error first
		ok := cl.WaitReplies(1, 3*time.Second)
		env.Barrier()
		// requests that arrive between the error and the sibling's late reply (decoded into
		// whatever objects the answered request has just released) and are themselves still
		// waiting, on other nodes, when that late reply comes in
		nmid := 0
		var midKeys []string
		var midGates []*Gate
		if i%2 == 1 {
			sib := env.T.Owner(r.slots[1])
			for len(midKeys) < 3 {
				sl := rng.Intn(16384)
				if o := env.T.Owner(sl); o == nil || o == sib {
					continue
				}
				k := Key(sl, newToken("mid"))
				g := NewGate()
				script.Plan(k).Gate = g
				midKeys = append(midKeys, k)
				midGates = append(midGates, g)
				cl.Send(Req("GET", k))
			}
			nmid = len(midKeys)
			env.Barrier()
		}
		gates[1].Open() // then the sibling: redirect or late normal reply
		env.Barrier()
		for _, g := range midGates {
			g.Open()
		}
		midOK := true
		if nmid > 0 {
			midOK = cl.WaitReplies(1+nmid, 3*time.Second)
			snap := cl.Snapshot()
			for j, k := range midKeys {
				if 1+j >= len(snap.Replies) || !bytes.Equal(snap.Replies[1+j].Val.Raw, BulkReply([]byte("v:"+k))) {
					midOK = false
				}
			}
			script.Forget(midKeys...)
		}
		// follow-up traffic on the same connection
		fk := Key(rng.Intn(16384), newToken("fu"))
		cl.Send(Req("GET", fk))
		ok2 := cl.WaitReplies(2+nmid, 3*time.Second) && midOK
		wit := map[string]interface{}{"request": Q(r.raw), "first_fragment_reply": e, "second_fragment_reply": Q(r.override[r.slots[1]])}
		c.Eval(1)
		c.Distinct(fmt.Sprintf("error-then-sibling/%s/%d", kind, i%4))
		switch {
		case !env.P.Alive():
			wit["stderr"] = env.P.OutputTail(1500)
			c.Violate(Violation{Class: "proxy-died", Shape: kind + "/late-sibling-after-error", Detail: "proxy crashed when a sibling fragment answered after the request had been completed by an error: " + env.P.PanicLine(), Witness: wit})
			restart()
		case !ok || cl.Snapshot().Replies[0].Val.Kind != '-':
			c.Violate(Violation{Class: "error-converted-to-success", Shape: kind + "/late-sibling-after-error", Detail: "request with an erroring fragment not answered with an error", Witness: wit})
		case !ok2 || !bytes.Equal(cl.Snapshot().Replies[1+nmid].Val.Raw, BulkReply([]byte("v:"+fk))):
			wit["received"] = valStrings(cl.Snapshot().Replies)
			wit["requests_sent_between_error_and_late_sibling_reply"] = midKeys
			c.Violate(Violation{Class: "following-request-disturbed", Shape: kind + "/late-sibling-after-error", Detail: "the requests after it were not answered normally (each GET k must return v:k)", Witness: wit})
		default:
			c.Count("split_errors_surfaced", 1)
		}
		cl.Close()
		r.forget(script)
	}
	// the same, within ONE event-loop round: both fragments live on the same node, which
	// answers the first to arrive with a redirect and the second with an error in a single
	// write. The redirected fragment is still waiting to be written to its new node when
	// the error completes the request. The new node must stay usable.
	for i := 0; i < c.Pick(16, 200) && env.P.Alive(); i++ {
		kind := []string{"mget", "del", "mset"}[i%3]
		var s1, s2 int
		var x *TNode
		for {
			s1, s2 = rng.Intn(16384), rng.Intn(16384)
			if x = env.T.Owner(s1); x != nil && s1 != s2 && env.T.Owner(s2) == x {
				break
			}
		}
		var y *TNode
		for _, tn := range env.T.Nodes {
			if tn.Master && tn != x {
				y = tn
			}
		}
		r := c07genSlots(rng, kind, []int{s1, s2}, 2+rng.Intn(2), false)
		e := c11errors[(i*5)%len(c11errors)]
		kw := []string{"MOVED", "ASK"}[i%2]
		var arrived int32
		for _, sl := range r.slots {
			sl := sl
			script.Plan(string(r.keys[r.groups[sl][0]])).Act = func(b *BReq) Action {
				if b.Node != x.Node {
					return Action{Reply: ValueReply(b)} // the re-sent fragment at its new node
				}
				if atomic.AddInt32(&arrived, 1) == 1 {
					return Action{Reply: ErrReply(fmt.Sprintf("%s %d %s", kw, sl, y.Addr)), MergeNext: true}
				}
				return Action{Reply: ErrReply(e)}
			}
		}
		cl, err := env.Dial()
		must(err, "dial")
		cl.Send(r.raw)
		ok := cl.WaitReplies(1, 3*time.Second)
		env.Barrier()
		// follow-up traffic for the node the fragment was redirected to, on this and on
		// another client connection
		ySlot := y.Slots[0][0] + rng.Intn(y.Slots[0][1]-y.Slots[0][0]+1)
		fk := Key(ySlot, newToken("fu"))
		fk2 := Key(ySlot, newToken("fu"))
		cl.Send(Req("GET", fk))
		ok2 := cl.WaitReplies(2, 3*time.Second)
		cl2, err := env.Dial()
		must(err, "dial")
		cl2.Send(Req("GET", fk2))
		ok3 := cl2.WaitReplies(1, 3*time.Second)
		wit := map[string]interface{}{"request": Q(r.raw), "node_answers_in_one_write": []string{fmt.Sprintf("-%s <slot> %s", kw, y.Addr), "-" + e}}
		c.Eval(1)
		c.Distinct(fmt.Sprintf("redirect+error-in-one-write/%s/%s", kind, kw))
		switch {
		case !env.P.Alive():
			wit["stderr"] = env.P.OutputTail(1500)
			c.Violate(Violation{Class: "proxy-died", Shape: kind + "/redirect-and-error-in-one-round", Detail: "proxy crashed: " + env.P.PanicLine(), Witness: wit})
			restart()
		case !ok || cl.Snapshot().Replies[0].Val.Kind != '-':
			c.Violate(Violation{Class: "error-converted-to-success", Shape: kind + "/redirect-and-error-in-one-round", Detail: "request with an erroring fragment not answered with an error", Witness: wit})
		case !ok2 || !bytes.Equal(cl.Snapshot().Replies[1].Val.Raw, BulkReply([]byte("v:"+fk))) || !ok3 || !bytes.Equal(cl2.Snapshot().Replies[0].Val.Raw, BulkReply([]byte("v:"+fk2))):
			wit["received"] = valStrings(cl.Snapshot().Replies)
			wit["received_second_client"] = valStrings(cl2.Snapshot().Replies)
			c.Violate(Violation{Class: "following-request-disturbed", Shape: kind + "/redirect-and-error-in-one-round", Detail: "requests for the node the fragment was redirected to are no longer answered normally", Witness: wit})
		default:
			c.Count("split_errors_surfaced", 1)
		}
		cl.Close()
		cl2.Close()
		r.forget(script)
	}
	if env.P.Alive() {
		c11witness(c, env, script, rng)
	}
	c11handshake(c, rng)
	c.MinEvals = 100
}

// c11witness: after a batch the proxy must still serve a normal pipeline.
func c11witness(c *Check, env *Env, script *Script, rng *rand.Rand) {
	g := &pipeGen{env: env, script: script, rng: rng, gated: false, maxMultiKeys: 4, wSingle: 3, wMulti: 2}
	p := g.pipeline(10)
	cl, err := env.Dial()
	must(err, "dial")
	defer cl.Close()
	cl.Send(concatReqs(p))
	cl.WaitReplies(len(p), 5*time.Second)
	for _, is := range checkPipeline(p, cl.Snapshot()) {
		c.Violate(Violation{Class: "witness-pipeline-disturbed", Shape: is.Class, Detail: "after a batch of backend errors a normal pipeline misbehaves: " + is.Detail})
	}
	c.Count("witness_pipelines_ok", 1)
}

// c11handshake: on a cluster with a password every fresh backend connection starts with
// an AUTH handshake; the node answers the handshake and the first real reply - an error -
// in one write. The error must still reach the client verbatim.
func c11handshake(c *Check, rng *rand.Rand) {
	env, err := NewEnv(EnvOpt{Masters: 3, Replicas: 1, Cfg: ProxyCfg{Password: "c11pw"}})
	must(err, "start env")
	defer env.Close()
	env.Cl.HandshakeMode = "merge"
	script := NewScript()
	env.Cl.SetHandler(script.Handler)
	cl, err := env.Dial()
	must(err, "dial")
	defer func() { cl.Close() }()
	got := 0
	for ep := 0; ep < c.Pick(12, 150) && env.P.Alive(); ep++ {
		for _, n := range env.Cl.Nodes {
			n.KillConns()
		}
		env.Barrier()
		for k := 0; k < 3; k++ {
			tok := newToken("hs")
			rep := ErrReply(c11errors[(ep*3+k)%len(c11errors)])
			script.Plan(tok).Act = func(*BReq) Action { return Action{Reply: rep} }
			raw := Req("LPUSH", tok, "v")
			if k == 1 {
				raw = Req("GET", tok) // may go to a replica: AUTH + READONLY handshake
			}
			cl.Send(raw)
			got++
			c.Eval(1)
			c.Distinct(fmt.Sprintf("handshake-merged/%d/%s", k, string(rep[:minInt(len(rep), 10)])))
			if !cl.WaitReplies(got, 8*time.Second) {
				// the freshly killed connection may have been picked with the request in flight (C15's subject)
				cl.Close()
				cl, err = env.Dial()
				must(err, "redial")
				got = 0
				c.Count("handshake_episode_requests_lost_to_reconnect", 1)
				continue
			}
			v := cl.Snapshot().Replies[got-1].Val
			if v.Kind == '-' && (bytes.Contains(v.Str, []byte("proxy pool")) || bytes.Contains(v.Str, []byte("connection closed"))) {
				c.Count("handshake_episode_pool_errors", 1)
				continue
			}
			if !bytes.Equal(v.Raw, rep) {
				c.Violate(Violation{Class: "error-not-verbatim", Shape: "first-reply-merged-with-handshake",
					Detail:  fmt.Sprintf("backend error %s (written together with the handshake replies of a fresh connection) reached the client as %s", Q(rep), Q(v.Raw)),
					Witness: map[string]interface{}{"request": Q(raw)}})
			} else {
				c.Count("single_key_errors_verbatim", 1)
			}
			script.Forget(tok)
		}
	}
	if !env.P.Alive() {
		c.Violate(Violation{Class: "proxy-died", Shape: "first-reply-merged-with-handshake", Detail: env.P.PanicLine(), Witness: env.P.OutputTail(2000)})
	}
}
