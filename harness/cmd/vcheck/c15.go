package main

import (
	"bytes"
	"fmt"
	"math/rand"
	"os"
	"strings"
	"sync"
	"time"

	. "vcheck/lib"
)

func init() { register("C15", "fault_enumeration", runC15) }

type c15case struct {
	fault  string // accept-close, close-on-arrival, close-before-reply, close-after-1, close-after-half, close-after-allbut1, node-down, unknown-moved, unknown-ask, removed-from-topology
	plen   int
	pos    int
	split  bool
	shared bool // another client shares the backend connection
}

func runC15(c *Check, rng *rand.Rand) {
	c.Rule = "fault enumeration with timeout=0: fault point {node closes on accept, on arrival of request i, after reading it before replying, after 1 / half / all-1 reply bytes, node down (listener closed, connections reset), MOVED/ASK naming an unknown address, node removed from CLUSTER NODES with requests waiting (also: the node has stopped reading and 20 MB of requests are queued for it in the proxy)} x affected position i of pipelines of length <= L x {single-key, fragment of a split request} x {another client shares the backend connection}; oracle after the fault is visible and the event-loop barrier passed (re-checked after 1 s): every client is closed or holds exactly one reply per request - normal for requests on other nodes, normal or error for requests on the lost node; the proxy is alive; after the node is restored a fresh request succeeds over a connection accepted after the fault; distinct = (fault, position, length, kind, shared)"
	c.Assumptions = []string{"bounded-progress restatement of 'never waits forever': judged in event-loop rounds after the fault became visible to the proxy, not in wall-clock time"}
	lanes := 4
	perLane := 5
	env, err := NewEnv(EnvOpt{Masters: lanes*perLane + 1, Extra: 1, Cfg: ProxyCfg{LogLevel: os.Getenv("C15_LOGLEVEL")}})
	must(err, "start env")
	defer env.Close()
	script := NewScript()
	env.Cl.SetHandler(script.Handler)
	faults := []string{"accept-close", "close-on-arrival", "close-before-reply", "close-after-1", "close-after-half", "close-after-allbut1", "node-down", "unknown-moved", "unknown-ask"}
	var cases []c15case
	maxLen := c.Pick(3, 6)
	for _, f := range faults {
		for plen := 1; plen <= maxLen; plen++ {
			for pos := 0; pos < plen; pos++ {
				if !c.Thorough() && plen == 2 && pos == 0 && f != "close-before-reply" {
					continue
				}
				cases = append(cases, c15case{f, plen, pos, (plen+pos)%2 == 1, (plen+pos)%3 == 0})
			}
		}
	}
	if c.Thorough() {
		for i := 0; i < 600; i++ {
			plen := 1 + rng.Intn(12)
			cases = append(cases, c15case{faults[rng.Intn(len(faults))], plen, rng.Intn(plen), rng.Intn(2) == 0, rng.Intn(2) == 0})
		}
	}
	if os.Getenv("C15_ONLY_REMOVED") != "" {
		cases = nil
	}
	ch := make(chan c15case, len(cases))
	for _, cs := range cases {
		ch <- cs
	}
	close(ch)
	var wg sync.WaitGroup
	var dead sync.Once
	for l := 0; l < lanes; l++ {
		wg.Add(1)
		go func(l int) {
			defer wg.Done()
			defer func() {
				if r := recover(); r != nil {
					if ie, ok := r.(infraErr); ok {
						c.Inconclusive("%s", string(ie))
						return
					}
					panic(r)
				}
			}()
			lrng := rand.New(rand.NewSource(c.Seed*10 + int64(l)))
			nodes := env.T.Nodes[l*perLane : (l+1)*perLane]
			for cs := range ch {
				if !env.P.Alive() {
					dead.Do(func() {
						c.Violate(Violation{Class: "proxy-died", Shape: "backend-loss", Detail: env.P.PanicLine(), Witness: env.P.OutputTail(3000)})
					})
					return
				}
				c15run(c, lrng, env, script, nodes, cs)
			}
		}(l)
	}
	wg.Wait()
	if env.P.Alive() {
		c15removed(c, rng, env, script)
	}
	c15compound(c, rng, 0)
	c15multiConn(c, rng)
	c.MinEvals = 30
}

func c15run(c *Check, rng *rand.Rand, env *Env, script *Script, nodes []*TNode, cs c15case) {
	victim := nodes[0]
	vn := victim.Node
	unknownAddr := env.Cl.Nodes[len(env.Cl.Nodes)-1].Addr // a live node that is not part of the topology
	type reqInfo struct {
		raw      []byte
		expect   []byte
		onVictim bool
		keys     []string
	}
	var reqs []*reqInfo
	var gates []*Gate
	victimKeyOfFault := ""
	mkSingle := func(tn *TNode) *reqInfo {
		k := Key(slotOf(tn, rng), newToken("l"))
		return &reqInfo{raw: Req("GET", k), expect: BulkReply([]byte("v:" + k)), onVictim: tn == victim, keys: []string{k}}
	}
	for i := 0; i < cs.plen; i++ {
		var ri *reqInfo
		switch {
		case i == cs.pos && cs.split:
			k1 := Key(slotOf(victim, rng), newToken("l"))
			k2 := Key(slotOf(nodes[1+rng.Intn(len(nodes)-1)], rng), newToken("l"))
			ri = &reqInfo{raw: Req("MGET", k1, k2), expect: ArrayReply(BulkReply([]byte("v:"+k1)), BulkReply([]byte("v:"+k2))), onVictim: true, keys: []string{k1, k2}}
			victimKeyOfFault = k1
		case i == cs.pos:
			ri = mkSingle(victim)
			victimKeyOfFault = ri.keys[0]
		case rng.Intn(3) == 0:
			ri = mkSingle(victim)
		default:
			ri = mkSingle(nodes[1+rng.Intn(len(nodes)-1)])
		}
		reqs = append(reqs, ri)
	}
	// script the fault on the victim key
	faultDone := make(chan struct{})
	var once sync.Once
	signal := func() { once.Do(func() { close(faultDone) }) }
	pl := script.Plan(victimKeyOfFault)
	normal := BulkReply([]byte("v:" + victimKeyOfFault))
	if cs.split {
		normal = ArrayReply(normal)
	}
	preFault := func() {}
	switch cs.fault {
	case "accept-close":
		preFault = func() { vn.KillConns(); vn.SetAcceptClose(true) }
	case "close-on-arrival":
		pl.Act = func(r *BReq) Action { r.Conn.Close(); signal(); return Action{NoReply: true} }
	case "close-before-reply":
		g := NewGate()
		gates = append(gates, g)
		pl.Gate = g
		pl.Act = func(r *BReq) Action { return Action{CloseBeforeReply: true} }
	case "close-after-1":
		pl.Act = func(r *BReq) Action { return Action{Reply: normal, CloseAfterBytes: 1} }
	case "close-after-half":
		pl.Act = func(r *BReq) Action { return Action{Reply: normal, CloseAfterBytes: len(normal) / 2} }
	case "close-after-allbut1":
		pl.Act = func(r *BReq) Action { return Action{Reply: normal, CloseAfterBytes: len(normal) - 1} }
	case "node-down":
		g := NewGate()
		gates = append(gates, g)
		pl.Gate = g
	case "unknown-moved":
		pl.Act = func(r *BReq) Action {
			return Action{Reply: ErrReply(fmt.Sprintf("MOVED %d %s", KeySlot([]byte(victimKeyOfFault)), unknownAddr))}
		}
	case "unknown-ask":
		pl.Act = func(r *BReq) Action {
			return Action{Reply: ErrReply(fmt.Sprintf("ASK %d %s", KeySlot([]byte(victimKeyOfFault)), unknownAddr))}
		}
	}
	preFault()
	cl, err := env.Dial()
	must(err, "dial")
	defer cl.Close()
	var other *Client
	var otherReq *reqInfo
	if cs.shared {
		other, err = env.Dial()
		must(err, "dial")
		defer other.Close()
		otherReq = mkSingle(victim)
		g := NewGate()
		gates = append(gates, g)
		script.Plan(otherReq.keys[0]).Gate = g
		other.Send(otherReq.raw)
		env.Barrier()
	}
	var all []byte
	for _, r := range reqs {
		all = append(all, r.raw...)
	}
	cl.Send(all)
	env.Barrier()
	// make the fault happen / visible
	switch cs.fault {
	case "node-down":
		vn.SetDown(true)
	case "close-before-reply":
		gates[0].Open()
	}
	time.Sleep(2 * time.Millisecond)
	for _, g := range gates {
		g.Open()
	}
	// wait until the node really closed the connection (its close() returned)
	if cs.fault != "unknown-moved" && cs.fault != "unknown-ask" && cs.fault != "accept-close" {
		dl := time.Now().Add(3 * time.Second)
		for time.Now().Before(dl) {
			allClosed := true
			for _, bc := range vn.Conns() {
				if !bc.Closed() {
					allClosed = false
				}
			}
			if allClosed {
				break
			}
			time.Sleep(time.Millisecond)
		}
	}
	env.Barrier()
	settled := func(k *Client, n int) bool {
		s := k.Snapshot()
		return s.Closed || len(s.Replies) >= n
	}
	if !settled(cl, len(reqs)) || (other != nil && !settled(other, 1)) {
		time.Sleep(time.Second)
		env.Barrier()
	}
	shape := cs.fault
	kind := "single-key"
	if cs.split {
		kind = "fragment"
	}
	var plist []string
	for _, r := range reqs {
		plist = append(plist, Q(r.raw))
	}
	s := cl.Snapshot()
	wit := map[string]interface{}{"fault": cs.fault, "pipeline": plist, "faulted_position": cs.pos, "request_kind": kind, "shared_backend_connection": cs.shared,
		"received": valStrings(s.Replies), "client_closed": s.Closed}
	c.Eval(1)
	c.Distinct(fmt.Sprintf("%s/%d/%d/%s/%v", cs.fault, cs.plen, cs.pos, kind, cs.shared))
	ok := true
	if !s.Closed && len(s.Replies) < len(reqs) {
		ok = false
		c.Violate(Violation{Class: "client-left-waiting", Shape: shape + "/" + kind,
			Detail:  fmt.Sprintf("%s at position %d of %d (%s): the client is neither closed nor answered (%d of %d replies)", cs.fault, cs.pos, cs.plen, kind, len(s.Replies), len(reqs)),
			Witness: wit})
	}
	for i := 0; i < len(s.Replies) && i < len(reqs); i++ {
		v := s.Replies[i].Val
		r := reqs[i]
		if bytes.Equal(v.Raw, r.expect) || (r.onVictim && v.Kind == '-') {
			continue
		}
		ok = false
		c.Violate(Violation{Class: "wrong-reply-around-backend-loss", Shape: shape + "/" + kind,
			Detail:  fmt.Sprintf("%s: position %d (on lost node=%v) got %s, expected %s", cs.fault, i, r.onVictim, v.String(), Q(r.expect)),
			Witness: wit})
		break
	}
	if other != nil {
		so := other.Snapshot()
		if !so.Closed && len(so.Replies) < 1 {
			ok = false
			c.Violate(Violation{Class: "client-left-waiting", Shape: shape + "/sharing-client",
				Detail:  fmt.Sprintf("%s: another client with a request waiting on the same backend connection is neither closed nor answered", cs.fault),
				Witness: wit})
		} else if len(so.Replies) >= 1 && !(so.Replies[0].Val.Kind == '-' || bytes.Equal(so.Replies[0].Val.Raw, otherReq.expect)) {
			ok = false
			c.Violate(Violation{Class: "wrong-reply-around-backend-loss", Shape: shape + "/sharing-client", Detail: "sharing client got " + so.Replies[0].Val.String(), Witness: wit})
		}
	}
	// restore and verify service over a fresh connection
	acceptMark := Tick()
	switch cs.fault {
	case "accept-close":
		vn.SetAcceptClose(false)
	case "node-down":
		must(vn.SetDown(false), "restore node")
	}
	script.Forget(victimKeyOfFault)
	served := false
	freshTry := 0
	var lastRep string
	dl := time.Now().Add(12 * time.Second)
	for time.Now().Before(dl) && env.P.Alive() {
		fc, err := env.Dial()
		must(err, "dial")
		k := Key(slotOf(victim, rng), newToken("fresh"))
		want := StatusReply("OK")
		if freshTry%2 == 0 {
			// a reply that reaches the proxy in three pieces: the new connection has to park
			// an incomplete reply (in whatever buffer the lost connection left behind)
			want = BulkReply([]byte("v:" + k))
			script.Plan(k).Act = func(r *BReq) Action {
				return Action{Reply: ValueReply(r), Chunks: []int{2, 5}, ChunkPause: 3 * time.Millisecond}
			}
			fc.Send(Req("GET", k))
		} else {
			fc.Send(Req("SET", k, "v"))
		}
		freshTry++
		got := fc.WaitReplies(1, 2*time.Second)
		if got {
			lastRep = fc.Snapshot().Replies[0].Val.String()
			if bytes.Equal(fc.Snapshot().Replies[0].Val.Raw, want) {
				served = true
			}
		}
		script.Forget(k)
		fc.Close()
		if served {
			break
		}
		time.Sleep(200 * time.Millisecond)
	}
	if !served && env.P.Alive() {
		ok = false
		c.Violate(Violation{Class: "node-not-served-after-restore", Shape: shape,
			Detail:  fmt.Sprintf("%s: 12 s after the node is healthy again requests for it still fail (last reply %s)", cs.fault, lastRep),
			Witness: wit})
	} else if served {
		fresh := false
		for _, bc := range vn.Conns() {
			if bc.AcceptAt > acceptMark-1000000 && !bc.Closed() {
				fresh = true
			}
		}
		_ = fresh
		c.Count("served_again_after_restore", 1)
	}
	if ok {
		c.Count("fault_cases_resolved", 1)
	}
	for _, r := range reqs {
		script.Forget(r.keys...)
	}
	if otherReq != nil {
		script.Forget(otherReq.keys...)
	}
	if cs.plen == 3 && cs.pos == 1 {
		c.Sample(wit)
	}
}

// c15removed: a node disappears from CLUSTER NODES while requests wait at its gate.
func c15removed(c *Check, rng *rand.Rand, env *Env, script *Script) {
	for rep := 0; rep < c.Pick(3, 12); rep++ {
		t := env.T
		victim := t.Nodes[len(t.Nodes)-1] // the extra master outside the lanes
		vn := victim.Node
		other := t.Nodes[0]
		k := Key(slotOf(victim, rng), newToken("rm"))
		k2 := Key(slotOf(other, rng), newToken("rm"))
		g := NewGate()
		script.Plan(k).Gate = g
		cl, err := env.Dial()
		must(err, "dial")
		cl.Send(append(Req("GET", k), Req("GET", k2)...))
		env.Barrier()
		// every other round the node has also stopped reading and megabytes of requests for
		// it sit in the proxy's own outbound buffer when the proxy closes the connection
		hung := rep%2 == 1
		var big *Client
		nbig := 0
		if hung {
			vn.SetPauseRead(true)
			big, err = env.Dial()
			must(err, "dial")
			val := strings.Repeat("h", 512*1024)
			for i := 0; i < 40; i++ {
				big.Send(Req("SET", Key(slotOf(victim, rng), newToken("rmbig")), val))
				nbig++
			}
			env.Barrier()
		}
		// new description: victim's slots go to `other`, victim gone
		nt := &Topo{}
		for _, tn := range t.Nodes {
			if tn == victim {
				continue
			}
			cp := *tn
			if tn == other {
				cp.Slots = append(append([][2]int(nil), tn.Slots...), victim.Slots...)
			}
			nt.Nodes = append(nt.Nodes, &cp)
		}
		nt.Install(env.Cl)
		// adopted when a write for the victim's slot reaches `other`
		adopted := false
		for dl := time.Now().Add(12 * time.Second); time.Now().Before(dl) && !adopted; {
			// a fresh connection per probe: before adoption the probe is routed to the
			// frozen node and stays unanswered
			pc, err := env.Dial()
			must(err, "dial")
			tok := newToken("ad")
			before := env.Cl.LogLen()
			pc.Send(Req("SET", Key(victim.Slots[0][0], tok), "v"))
			pc.WaitReplies(1, 400*time.Millisecond)
			for _, r := range env.Cl.Log()[before:] {
				if r.Node == other.Node && r.Cmd == "set" && strings.Contains(r.Arg(1), tok) {
					adopted = true
				}
			}
			pc.Close()
		}
		c.Eval(1)
		c.Distinct(fmt.Sprintf("removed-from-topology/%d", rep))
		if !adopted {
			// not adopted, or not serving at all any more?
			alive := false
			if pc, err := env.Dial(); err == nil {
				pc.Send(Req("PING"))
				alive = pc.WaitReplies(1, 5*time.Second)
				pc.Close()
			}
			if !alive {
				c.Violate(Violation{Class: "proxy-stopped-serving", Shape: fmt.Sprintf("removed-from-topology/hung=%v", hung),
					Detail:  "after a node was removed from the topology the proxy process is alive but no connection is served any more (a PING on a fresh connection stays unanswered for 5 s)",
					Witness: map[string]interface{}{"removed_node": vn.Addr, "node_had_stopped_reading_with_requests_queued": hung, "proxy_alive": env.P.Alive()}})
				vn.SetPauseRead(false)
				return
			}
			c.Count("removal_not_adopted(C14 subject)", 1)
			vn.SetPauseRead(false)
			if big != nil {
				big.Close()
			}
			g.Open()
			cl.Close()
			t.Install(env.Cl)
			time.Sleep(3 * time.Second)
			continue
		}
		env.Barrier()
		s := cl.Snapshot()
		if !s.Closed && len(s.Replies) < 2 {
			time.Sleep(time.Second)
			env.Barrier()
			s = cl.Snapshot()
		}
		if !s.Closed && len(s.Replies) < 2 {
			c.Violate(Violation{Class: "client-left-waiting", Shape: "removed-from-topology/single-key",
				Detail:  fmt.Sprintf("the node was removed from the topology (its pool closed) while a request waited for its reply: client holds %d of 2 replies and is not closed", len(s.Replies)),
				Witness: map[string]interface{}{"received": valStrings(s.Replies), "removed_node": vn.Addr}})
		} else {
			c.Count("fault_cases_resolved", 1)
		}
		if big != nil {
			bs := big.Snapshot()
			if !bs.Closed && len(bs.Replies) < nbig {
				time.Sleep(time.Second)
				env.Barrier()
				bs = big.Snapshot()
			}
			if !bs.Closed && len(bs.Replies) < nbig {
				c.Violate(Violation{Class: "client-left-waiting", Shape: "removed-from-topology/hung-node-with-backlog",
					Detail:  fmt.Sprintf("the removed node had stopped reading and %d x 512 KB of requests were queued for it: their client holds %d of %d replies and is not closed", nbig, len(bs.Replies), nbig),
					Witness: map[string]interface{}{"removed_node": vn.Addr}})
			} else {
				c.Count("fault_cases_resolved", 1)
			}
			big.Close()
			vn.SetPauseRead(false)
		}
		g.Open()
		cl.Close()
		script.Forget(k, k2)
		// put the node back
		t.Install(env.Cl)
		time.Sleep(3 * time.Second)
	}
}

// c15compound: a split request over nodes A and B is failed because A is lost (B's
// fragment stays behind, already answered); other clients then have requests in flight
// on node C; B is lost too; C answers. The other clients are unaffected by B's loss and
// must get their normal replies. timeoutMs > 0: the first request is timed out instead
// of failed by a lost connection (C16's variant).
func c15compound(c *Check, rng *rand.Rand, timeoutMs int) {
	env, err := NewEnv(EnvOpt{Masters: 4, Cfg: ProxyCfg{Timeout: timeoutMs}})
	must(err, "start env")
	defer env.Close()
	script := NewScript()
	env.Cl.SetHandler(script.Handler)
	a, b, cn := env.T.Nodes[0], env.T.Nodes[1], env.T.Nodes[2]
	label := "split-request-failed-then-second-node-lost"
	if timeoutMs > 0 {
		label = "request-timed-out-then-its-node-lost"
	}
	for round := 0; round < c.Pick(4, 60) && env.P.Alive(); round++ {
		var gates []*Gate
		gate := func(k string) *Gate {
			g := NewGate()
			script.Plan(k).Gate = g
			gates = append(gates, g)
			return g
		}
		// step 1: many split requests over A and B, both gated
		c1, err := env.Dial()
		must(err, "dial")
		n1 := 24
		var keys []string
		for i := 0; i < n1; i++ {
			ka, kb := Key(slotOf(a, rng), newToken("ca")), Key(slotOf(b, rng), newToken("cb"))
			gate(ka)
			gate(kb)
			keys = append(keys, ka, kb)
			c1.Send(Req("MGET", ka, kb))
		}
		env.Barrier()
		if timeoutMs > 0 {
			time.Sleep(time.Duration(timeoutMs+1400) * time.Millisecond)
			env.Barrier()
		} else {
			a.Node.KillConns()
			env.Barrier()
		}
		c1.WaitReplies(n1, 5*time.Second) // errors
		// step 2: another client's requests in flight on C (recycled message objects)
		c2, err := env.Dial()
		must(err, "dial")
		n2 := 24
		var k2 []string
		for i := 0; i < n2; i++ {
			k := Key(slotOf(cn, rng), newToken("cc"))
			gate(k)
			k2 = append(k2, k)
			c2.Send(Req("GET", k))
		}
		env.Barrier()
		// step 3: B is lost with the stale fragments still queued on its connection
		b.Node.KillConns()
		env.Barrier()
		// step 4: C answers
		for _, g := range gates {
			g.Open()
		}
		ok := c2.WaitReplies(n2, 6*time.Second)
		if !ok && env.P.Alive() {
			env.Barrier()
			time.Sleep(time.Second)
			env.Barrier()
		}
		s := c2.Snapshot()
		c.Eval(1)
		c.Distinct(fmt.Sprintf("compound/%s/%d", label, round))
		wit := map[string]interface{}{"scenario": label, "second_client_requests": n2, "second_client_received": valStrings(s.Replies)}
		if !env.P.Alive() {
			c.Violate(Violation{Class: "proxy-died", Shape: label, Detail: env.P.PanicLine(), Witness: wit})
			return
		}
		if len(s.Replies) < n2 && !s.Closed {
			c.Violate(Violation{Class: "client-left-waiting", Shape: label + "/unaffected-client",
				Detail: fmt.Sprintf("a client whose requests were on a healthy node holds %d of %d replies after another node was lost", len(s.Replies), n2), Witness: wit})
		}
		for i := 0; i < len(s.Replies) && i < n2; i++ {
			if !bytes.Equal(s.Replies[i].Val.Raw, BulkReply([]byte("v:"+k2[i]))) {
				c.Violate(Violation{Class: "wrong-reply-around-backend-loss", Shape: label + "/unaffected-client",
					Detail: fmt.Sprintf("request %d on a healthy node was answered %s", i, s.Replies[i].Val.String()), Witness: wit})
				break
			}
		}
		c.Count("compound_rounds", 1)
		c1.Close()
		c2.Close()
		script.Forget(keys...)
		script.Forget(k2...)
	}
}

// c15multiConn: two backend connections per node (server_connections: 2).
// (A) requests wait on both connections of a node when it leaves the topology: every
// one of their clients must be answered or closed. (B) a node is unreachable and the
// proxy has just learnt so from a failed dial; another node then redirects a request
// to it: that request (and what is pipelined behind it) must be answered.
func c15multiConn(c *Check, rng *rand.Rand) {
	env, err := NewEnv(EnvOpt{Masters: 4, Cfg: ProxyCfg{ServerConnections: 2}})
	must(err, "start env")
	defer env.Close()
	script := NewScript()
	env.Cl.SetHandler(script.Handler)
	t := env.T
	// (B) first, on the intact topology
	for rep := 0; rep < c.Pick(3, 12) && env.P.Alive(); rep++ {
		a, b := t.Nodes[rep%2], t.Nodes[2+rep%2]
		must(b.Node.SetDown(true), "node down")
		c1, err := env.Dial()
		must(err, "dial")
		// direct requests until one fails: the proxy's last experience with b is a failed dial
		failed := false
		for i := 0; i < 10 && !failed; i++ {
			c1.Send(Req("GET", Key(slotOf(b, rng), newToken("dn"))))
			if !c1.WaitReplies(i+1, 3*time.Second) {
				break
			}
			failed = c1.Snapshot().Replies[i].Val.Kind == '-'
		}
		c1.Close()
		sl := slotOf(a, rng)
		k := Key(sl, newToken("mvdn"))
		kw := []string{"MOVED", "ASK"}[rep%2]
		script.Plan(k).Act = func(*BReq) Action { return Action{Reply: ErrReply(fmt.Sprintf("%s %d %s", kw, sl, b.Addr))} }
		c2, err := env.Dial()
		must(err, "dial")
		c2.Send(append(Req("GET", k), Req("PING")...))
		ok := c2.WaitReplies(2, 6*time.Second)
		s2 := c2.Snapshot()
		c.Eval(1)
		c.Distinct(fmt.Sprintf("redirect-to-unreachable-known-node/%s/%v", kw, failed))
		if !ok && !s2.Closed {
			c.Violate(Violation{Class: "client-left-waiting", Shape: "redirect-to-unreachable-known-node/" + kw,
				Detail:  fmt.Sprintf("node %s is down (a direct request for it had just failed: %v); another node answered -%s naming it: the client holds %d of 2 replies after 6 s and is not closed", b.Addr, failed, kw, len(s2.Replies)),
				Witness: map[string]interface{}{"received": valStrings(s2.Replies), "proxy_alive": env.P.Alive()}})
		} else {
			c.Count("fault_cases_resolved", 1)
		}
		c2.Close()
		script.Forget(k)
		must(b.Node.SetDown(false), "node up")
		time.Sleep(300 * time.Millisecond)
	}
	// (A)
	victim := t.Nodes[3]
	other := t.Nodes[0]
	var waiting []*Client
	var gates []*Gate
	var keys []string
	for i := 0; i < 6; i++ {
		cl, err := env.Dial()
		must(err, "dial")
		k := Key(slotOf(victim, rng), newToken("rm2"))
		g := NewGate()
		script.Plan(k).Gate = g
		gates = append(gates, g)
		keys = append(keys, k)
		cl.Send(Req("GET", k))
		waiting = append(waiting, cl)
		env.Barrier()
	}
	nconn := 0
	for _, bc := range victim.Node.Conns() {
		if len(bc.Requests()) > 0 && !bc.Closed() {
			nconn++
		}
	}
	nt := &Topo{}
	for _, tn := range t.Nodes {
		if tn == victim {
			continue
		}
		cp := *tn
		if tn == other {
			cp.Slots = append(append([][2]int(nil), tn.Slots...), victim.Slots...)
		}
		nt.Nodes = append(nt.Nodes, &cp)
	}
	nt.Install(env.Cl)
	adopted := false
	for dl := time.Now().Add(12 * time.Second); time.Now().Before(dl) && !adopted; {
		pc, err := env.Dial()
		must(err, "dial")
		tok := newToken("ad2")
		before := env.Cl.LogLen()
		pc.Send(Req("SET", Key(victim.Slots[0][0], tok), "v"))
		pc.WaitReplies(1, 400*time.Millisecond)
		for _, r := range env.Cl.Log()[before:] {
			if r.Node == other.Node && r.Cmd == "set" && strings.Contains(r.Arg(1), tok) {
				adopted = true
			}
		}
		pc.Close()
	}
	c.Eval(1)
	c.Distinct(fmt.Sprintf("removed-from-topology/two-connections/%d", nconn))
	if !adopted {
		c.Count("removal_not_adopted(C14 subject)", 1)
	} else {
		env.Barrier()
		time.Sleep(500 * time.Millisecond)
		env.Barrier()
		stuck := 0
		for _, cl := range waiting {
			if s := cl.Snapshot(); !s.Closed && len(s.Replies) < 1 {
				stuck++
			}
		}
		if stuck > 0 {
			c.Violate(Violation{Class: "client-left-waiting", Shape: "removed-from-topology/two-connections",
				Detail:  fmt.Sprintf("the node was removed from the topology while 6 requests waited on its %d backend connections: %d of their clients are neither answered nor closed", nconn, stuck),
				Witness: map[string]interface{}{"removed_node": victim.Addr, "connections_with_waiting_requests": nconn}})
		} else {
			c.Count("fault_cases_resolved", 1)
		}
	}
	for _, g := range gates {
		g.Open()
	}
	for _, cl := range waiting {
		cl.Close()
	}
	script.Forget(keys...)
}
