package main

import (
	"bytes"
	"fmt"
	"math/rand"
	"time"

	. "vcheck/lib"
)

func init() { register("C09", "exploration", runC09) }

func runC09(c *Check, rng *rand.Rand) {
	c.Rule = "bounded-progress restatement: once the backends have written the replies of request i and of every earlier request of the connection, and 8 event-loop rounds have passed (witness barrier; re-checked after 1 s + second barrier), the client holds reply i although later requests are still outstanding. (a) every subset of answered positions of pipelines of length <= L; (b) open-loop clients that always keep >= 1 gated request outstanding; distinct = (pipeline length, answered subset) / (open-loop lag pattern)"
	c.Assumptions = []string{"due point of a reply = the fake node's write() of it (and of all earlier ones) has returned; delivery is judged in event-loop rounds, not wall-clock time"}
	env, err := NewEnv(EnvOpt{Masters: 8})
	must(err, "start env")
	defer env.Close()
	script := NewScript()
	env.Cl.SetHandler(script.Handler)
	g := &pipeGen{env: env, script: script, rng: rng, gated: true, maxMultiKeys: 4, wSingle: 3, wMulti: 1}

	// (a) all subsets
	maxLen := c.Pick(4, 6)
	for n := 2; n <= maxLen; n++ {
		for mask := 1; mask < (1<<n)-1; mask++ {
			if !env.P.Alive() {
				c.Violate(Violation{Class: "proxy-died", Shape: "subset", Detail: env.P.PanicLine()})
				return
			}
			// requests on distinct nodes so that a closed gate never blocks an open one
			var p []*PReq
			used := map[int]bool{}
			for len(p) < n {
				r := g.single()
				if used[r.Nodes[0]] {
					script.Forget(r.Keys...)
					continue
				}
				used[r.Nodes[0]] = true
				p = append(p, r)
			}
			cl, err := env.Dial()
			must(err, "dial")
			cl.Send(concatReqs(p))
			must(env.Barrier(), "barrier")
			due := 0
			for i := 0; i < n; i++ {
				if mask&(1<<i) != 0 {
					p[i].Gates[0].Open()
				}
			}
			for due < n && mask&(1<<due) != 0 {
				due++
			}
			// wait until the nodes have written the opened replies
			waitWritten(script, p, mask)
			must(env.Barrier(), "barrier")
			if cl.NReplies() < due {
				time.Sleep(time.Second)
				must(env.Barrier(), "barrier")
			}
			got := cl.NReplies()
			c.Eval(1)
			c.Distinct(fmt.Sprintf("subset/%d/%b", n, mask))
			if got < due {
				c.Violate(Violation{Class: "completed-replies-withheld", Shape: "pending-later-request",
					Detail:  fmt.Sprintf("pipeline of %d, backends answered positions %s; replies 0..%d are due but the client holds %d", n, maskStr(mask, n), due-1, got),
					Witness: map[string]interface{}{"pipeline": reqStrings(p), "answered_mask": maskStr(mask, n), "due": due, "received": got}})
			} else {
				c.Count("due_replies_delivered", int64(due))
			}
			for _, r := range p {
				r.Gates[0].Open()
				script.Forget(r.Keys...)
			}
			cl.WaitReplies(n, 2*time.Second)
			cl.Close()
		}
	}
	c.Sample(map[string]interface{}{"part": "a", "what": "every proper non-empty subset of answered positions for pipelines of length 2.." + itoa(maxLen)})

	// (a') deep pipelines: > 1024 completed replies pile up behind a slow head; once
	// the head is answered everything is due
	for k := 0; k < c.Pick(2, 10); k++ {
		n := 1100 + rng.Intn(1500)
		cl, p, gate, err := deepPipeline(env, script, rng, n)
		must(err, "deep pipeline")
		must(env.Barrier(), "barrier")
		time.Sleep(30 * time.Millisecond)
		gate.Open()
		waitWritten(script, p[:1], 1)
		must(env.Barrier(), "barrier")
		if cl.NReplies() < n {
			time.Sleep(time.Second)
			must(env.Barrier(), "barrier")
		}
		got := cl.NReplies()
		c.Eval(1)
		c.Distinct(fmt.Sprintf("deep/%d", n))
		if got < n {
			c.Violate(Violation{Class: "completed-replies-withheld", Shape: "deep-pipeline-behind-slow-head",
				Detail:  fmt.Sprintf("pipeline of %d: all backends have answered, the client holds %d replies", n, got),
				Witness: map[string]interface{}{"requests": n, "received": got, "shape": "first request slow, all later ones answered at once, then the first"}})
		} else {
			c.Count("due_replies_delivered", int64(n))
		}
		cl.Close()
		for _, r := range p {
			script.Forget(r.Keys...)
		}
	}

	// (a2) replies for two clients written by one node back to back (usually one read
	// for the proxy): both are due
	for k := 0; k < c.Pick(30, 400) && env.P.Alive(); k++ {
		slot := rng.Intn(16384)
		gate := NewGate()
		var cls []*Client
		var keys []string
		n := 2 + rng.Intn(3)
		for i := 0; i < n; i++ {
			cl, err := env.Dial()
			must(err, "dial")
			key := Key(slot, newToken("tw"))
			script.Plan(key).Gate = gate
			cl.Send(Req("GET", key))
			cls = append(cls, cl)
			keys = append(keys, key)
		}
		must(env.Barrier(), "barrier")
		gate.Open()
		for _, key := range keys {
			dl := time.Now().Add(3 * time.Second)
			for time.Now().Before(dl) {
				if pl := script.Lookup(key); pl != nil {
					if seen := pl.SeenReqs(); len(seen) > 0 && seen[0].Replied() != 0 {
						break
					}
				}
				time.Sleep(200 * time.Microsecond)
			}
		}
		must(env.Barrier(), "barrier")
		countMissing := func() int {
			m := 0
			for _, cl := range cls {
				if cl.NReplies() < 1 {
					m++
				}
			}
			return m
		}
		missing := countMissing()
		if missing > 0 {
			time.Sleep(time.Second)
			must(env.Barrier(), "barrier")
			missing = countMissing()
		}
		c.Eval(1)
		c.Distinct(fmt.Sprintf("same-read/%d", n))
		if missing > 0 {
			c.Violate(Violation{Class: "completed-replies-withheld", Shape: "replies-for-several-clients-in-one-backend-read",
				Detail:  fmt.Sprintf("one node answered %d clients back to back; %d of them hold no reply after the barrier", n, missing),
				Witness: map[string]interface{}{"clients": n, "without_reply": missing}})
		} else {
			c.Count("due_replies_delivered", int64(n))
		}
		for _, cl := range cls {
			cl.Close()
		}
		script.Forget(keys...)
	}
	// (a3) a split request whose last event is an error fragment: its error reply is due
	ge := &pipeGen{env: env, script: script, rng: rng, gated: true, maxMultiKeys: 4, errFrag: 1}
	for k := 0; k < c.Pick(12, 200) && env.P.Alive(); k++ {
		r := ge.multi()
		cl, err := env.Dial()
		must(err, "dial")
		cl.Send(r.Bytes)
		must(env.Barrier(), "barrier")
		for _, gt := range r.Gates {
			gt.Open()
			must(env.Barrier(), "barrier")
		}
		waitWritten(script, []*PReq{r}, 1)
		must(env.Barrier(), "barrier")
		if cl.NReplies() < 1 {
			time.Sleep(time.Second)
			must(env.Barrier(), "barrier")
		}
		c.Eval(1)
		c.Distinct(fmt.Sprintf("error-fragment/%s/%d", r.Kind, len(r.Gates)))
		if cl.NReplies() < 1 {
			c.Violate(Violation{Class: "completed-replies-withheld", Shape: "split-request-completed-by-error-fragment",
				Detail:  "every fragment of a split " + r.Kind + " was answered (one with an error) but the client holds no reply",
				Witness: map[string]interface{}{"request": Q(r.Bytes)}})
		} else {
			c.Count("due_replies_delivered", 1)
		}
		cl.Close()
		script.Forget(r.Keys...)
	}
	// a reader that stops and goes, twice on one connection
	c02stopAndGo(c, env, script, c.Seed+9, "C09")

	// a reader that does not read at all while thousands of replies pile up for it - the
	// kernel buffers fill, then the proxy's ring, then one list chunk per reply, far more
	// than one vectored write takes - and then reads: everything must arrive
	for k := 0; k < c.Pick(1, 6) && env.P.Alive(); k++ {
		cl, err := DialClient(env.P.Addr, "", 8192)
		must(err, "dial")
		cl.PauseReading(true)
		nbig, nsmall := 300+rng.Intn(400), 3000+rng.Intn(4000)
		if k%2 == 1 {
			nbig, nsmall = 0, 5000+rng.Intn(3000)
		}
		before := env.Cl.LogLen()
		bigVal := bytes.Repeat([]byte("P"), 16384)
		var batch []byte
		var keys []string
		for i := 0; i < nbig+nsmall; i++ {
			key := Key(rng.Intn(16384), newToken("pz"))
			keys = append(keys, key)
			if i < nbig {
				script.Plan(key).Act = func(*BReq) Action { return Action{Reply: BulkReply(bigVal)} }
			} else {
				script.Plan(key).Act = func(*BReq) Action { return Action{Reply: BulkReply([]byte("1"))} }
			}
			batch = append(batch, Req("GET", key)...)
			if len(batch) > 32768 {
				cl.Send(batch)
				batch = nil
			}
		}
		cl.Send(batch)
		// every request has been answered by its node
		for i := 0; i < 600 && env.Cl.LogLen()-before < nbig+nsmall; i++ {
			time.Sleep(20 * time.Millisecond)
		}
		answered := env.Cl.LogLen() - before
		env.Barrier()
		time.Sleep(200 * time.Millisecond)
		cl.PauseReading(false)
		ok := cl.WaitReplies(answered, 15*time.Second)
		if !ok {
			env.Barrier()
			time.Sleep(time.Second)
			env.Barrier()
			ok = cl.NReplies() >= answered
		}
		c.Eval(1)
		c.Distinct(fmt.Sprintf("paused-reader/%d/%d", nbig, nsmall))
		if !ok {
			c.Violate(Violation{Class: "completed-replies-withheld", Shape: "reader-resumes-after-deep-backlog",
				Detail:  fmt.Sprintf("the client did not read while %d requests (%d of them with 16 KB replies) were answered by the nodes; after it resumed reading it holds %d replies 15 s later", answered, nbig, cl.NReplies()),
				Witness: map[string]interface{}{"big_replies": nbig, "small_replies": nsmall, "answered_by_nodes": answered, "received": cl.NReplies(), "proxy_alive": env.P.Alive()}})
		} else {
			c.Count("due_replies_delivered", int64(answered))
		}
		cl.Close()
		script.Forget(keys...)
	}

	// (b) open loop
	episodes := c.Pick(6, 60)
	for ep := 0; ep < episodes; ep++ {
		if !env.P.Alive() {
			c.Violate(Violation{Class: "proxy-died", Shape: "open-loop", Detail: env.P.PanicLine()})
			return
		}
		cl, err := env.Dial()
		must(err, "dial")
		total := c.Pick(300, 3000)
		lagMax := 1 + rng.Intn(6)
		var p []*PReq
		opened := 0 // gates [0,opened) are open
		starved := false
		for i := 0; i < total && !starved; i++ {
			var r *PReq
			if rng.Intn(5) == 0 {
				r = g.multi()
			} else {
				r = g.single()
			}
			p = append(p, r)
			cl.Send(r.Bytes)
			// keep at least one (at most lagMax) requests outstanding
			lag := 1 + rng.Intn(lagMax)
			for opened < len(p)-lag {
				for _, gt := range p[opened].Gates {
					gt.Open()
				}
				opened++
			}
			if i%50 == 49 {
				// every reply below `opened` has been released: after the nodes wrote
				// them and the barrier passed they are due
				for k := 0; k < opened; k++ {
					waitWritten(script, p[k:k+1], 1)
				}
				must(env.Barrier(), "barrier")
				if cl.NReplies() < opened {
					time.Sleep(time.Second)
					must(env.Barrier(), "barrier")
				}
				got := cl.NReplies()
				c.Eval(1)
				if got < opened {
					starved = true
					c.Violate(Violation{Class: "completed-replies-withheld", Shape: "open-loop-client-starved",
						Detail:  fmt.Sprintf("open-loop client: %d requests sent, backends answered the first %d, client holds %d replies", len(p), opened, got),
						Witness: map[string]interface{}{"sent": len(p), "answered_prefix": opened, "received": got, "max_lag": lagMax}})
				} else {
					c.Count("open_loop_checkpoints_ok", 1)
					c.Count("due_replies_delivered", int64(opened))
				}
			}
		}
		c.Distinct(fmt.Sprintf("open-loop/%d/%d", lagMax, total))
		for _, r := range p {
			for _, gt := range r.Gates {
				gt.Open()
			}
		}
		cl.WaitReplies(len(p), 5*time.Second)
		s := cl.Snapshot()
		if !starved {
			for _, is := range checkPipeline(p, s) {
				if is.Class == "missing-replies" {
					c.Violate(Violation{Class: "completed-replies-withheld", Shape: "open-loop-final", Detail: is.Detail})
				}
			}
		}
		for _, r := range p {
			script.Forget(r.Keys...)
		}
		cl.Close()
		if ep == 0 {
			c.Sample(map[string]interface{}{"part": "b", "requests": total, "max_outstanding": lagMax, "replies_received": len(s.Replies)})
		}
	}
	c.MinEvals = 20
}

// waitWritten waits (bounded) until the fake nodes have written the replies
// of the requests selected by mask.
func waitWritten(script *Script, p []*PReq, mask int) {
	deadline := time.Now().Add(5 * time.Second)
	for i, r := range p {
		if mask&(1<<uint(i)) == 0 && len(p) > 1 {
			continue
		}
		for _, k := range firstKeys(r) {
			for time.Now().Before(deadline) {
				pl := script.Lookup(k)
				if pl == nil {
					break
				}
				seen := pl.SeenReqs()
				if len(seen) > 0 && seen[len(seen)-1].Replied() != 0 {
					break
				}
				time.Sleep(200 * time.Microsecond)
			}
		}
	}
}

// firstKeys returns, per fragment, the key under which its plan is stored.
func firstKeys(r *PReq) []string {
	if len(r.Keys) == 1 {
		return r.Keys
	}
	seen := map[int]bool{}
	var out []string
	for _, k := range r.Keys {
		s := KeySlot([]byte(k))
		if !seen[s] {
			seen[s] = true
			out = append(out, k)
		}
	}
	return out
}

func maskStr(mask, n int) string {
	s := ""
	for i := 0; i < n; i++ {
		if mask&(1<<i) != 0 {
			s += "1"
		} else {
			s += "0"
		}
	}
	return s
}
