package main

import (
	"encoding/base64"
	"encoding/json"
	"fmt"
	"math/rand"
	"os"
	"os/exec"
	"path/filepath"
	"reflect"
	"strings"
	"sync"
	"time"

	. "vcheck/lib"
)

func init() { register("C08", "exploration", runC08) }

type e3Case struct {
	Stream string  `json:"stream"`
	Cuts   [][]int `json:"cuts"`
	Poison string  `json:"poison,omitempty"`
}
type e3In struct {
	BufSize int      `json:"bufsize"`
	MaxLen  int      `json:"maxlen"`
	Cases   []e3Case `json:"cases"`
}
type e3Req struct {
	Type  uint32   `json:"type"`
	Frags []string `json:"frags"`
}
type e3Step struct {
	Decoded int  `json:"decoded"`
	Closed  bool `json:"closed"`
	Written int  `json:"written"`
}
type e3Run struct {
	Steps []e3Step `json:"steps"`
	Reqs  []e3Req  `json:"reqs"`
	Out   string   `json:"out"`
	Panic string   `json:"panic"`
}
type e3Out struct {
	Runs [][]e3Run `json:"runs"`
}

// genStream builds a well-formed request stream.
func genStream(rng *rand.Rand, maxReqs, big int) []byte {
	var out []byte
	n := 1 + rng.Intn(maxReqs)
	for i := 0; i < n; i++ {
		switch rng.Intn(10) {
		case 0:
			out = append(out, Req("PING")...)
		case 1: // unknown command, arbitrary args
			args := [][]byte{[]byte("FOOBAR")}
			for k := rng.Intn(3); k > 0; k-- {
				args = append(args, genArg(rng, 0))
			}
			out = append(out, EncodeReq(args...)...)
		case 2: // wrong arity
			out = append(out, Req("get", "a", "b", "c")...)
		case 3, 4: // multi-key
			kind := []string{"mget", "del", "mset"}[rng.Intn(3)]
			args := [][]byte{randCase(rng, kind)}
			for k := 1 + rng.Intn(5); k > 0; k-- {
				args = append(args, genArg(rng, 0))
				if kind == "mset" {
					args = append(args, genArg(rng, big))
				}
			}
			out = append(out, EncodeReq(args...)...)
		default:
			name := cmdNames[rng.Intn(len(cmdNames))]
			out = append(out, EncodeReq(genCommand(rng, name, genArg(rng, 0), big)...)...)
		}
	}
	return out
}

func runE3(in *e3In) (*e3Out, string, error) {
	dir, err := os.MkdirTemp(TmpRoot(), "e3-")
	if err != nil {
		return nil, "", err
	}
	inp, outp, ov := filepath.Join(dir, "in.json"), filepath.Join(dir, "out.json"), filepath.Join(dir, "overlay.json")
	b, _ := json.Marshal(in)
	os.WriteFile(inp, b, 0o644)
	os.WriteFile(ov, []byte(`{"Replace": {"`+RepoDir+`/core/zz_verif_chunk_driver_test.go": "/verif/intree/chunk_driver_test.go"}}`), 0o644)
	cmd := exec.Command("go", "test", "-overlay", ov, "-tags", "verif", "-vet=off", "-run", "^TestVerifChunks$", "-count=1", "-timeout", "30m", "./core/")
	cmd.Dir = RepoDir
	cmd.Env = append(GoEnv(), "VERIF_E3_IN="+inp, "VERIF_E3_OUT="+outp)
	ob, err := cmd.CombinedOutput()
	if err != nil {
		last, _ := os.ReadFile(outp + ".last")
		return nil, string(last), fmt.Errorf("%v: %s", err, trunc2(string(ob), 3000))
	}
	rb, err := os.ReadFile(outp)
	if err != nil {
		return nil, "", fmt.Errorf("driver wrote no output (test skipped or renamed?): %s", trunc2(string(ob), 1000))
	}
	var out e3Out
	if err := json.Unmarshal(rb, &out); err != nil {
		return nil, "", err
	}
	os.RemoveAll(dir)
	return &out, "", nil
}

func trunc2(s string, n int) string {
	if len(s) > n {
		return s[:n/2] + "\n...\n" + s[len(s)-n/2:]
	}
	return s
}

// headerCuts returns, for every count / length line of a well-formed stream, the
// offsets right before its CR, between CR and LF, and right after the LF.
func headerCuts(stream []byte) []int {
	var cuts []int
	off := 0
	for off < len(stream) {
		args, n, err := ParseRequestAsRedis(stream[off:])
		if err != nil {
			break
		}
		p := off
		line := func() {
			i := p
			for stream[i] != '\r' {
				i++
			}
			cuts = append(cuts, i, i+1, i+2)
			p = i + 2
		}
		line() // *N
		for _, a := range args {
			line() // $len
			p += len(a) + 2
		}
		off += n
	}
	return cuts
}

// refBoundaries returns the end offsets of the requests of a well-formed stream.
func refBoundaries(stream []byte) []int {
	var ends []int
	off := 0
	for off < len(stream) {
		_, n, err := ParseRequestAsRedis(stream[off:])
		if err != nil {
			panic("generator produced a malformed stream: " + err.Error())
		}
		off += n
		ends = append(ends, off)
	}
	return ends
}

func runC08(c *Check, rng *rand.Rand) {
	c.Rule = "E3: well-formed request streams (1..N requests of all commands, binary args) fed to the real event-loop read path on a socketpair under every single cut, every double cut (short streams), byte-by-byte and random k-way cuts, with 64KB and 7-byte read buffers; E1: chunked TCP writes with pauses; distinct = (stream, segmentation) pairs, non-trivial = at least one cut inside the stream"
	c.Assumptions = []string{
		"the in-tree driver (overlaid, nothing written under /repo) only executes; the oracle runs in the harness",
		"a request whose last byte has arrived must be recognised at that chunk (framing depends only on the bytes received)",
	}
	nstreams := c.Pick(50, 700)
	var mu sync.Mutex
	judge := func(bufsize int, streams [][]byte, in *e3In, out *e3Out) {
		for si, stream := range streams {
			ends := refBoundaries(stream)
			runs := out.Runs[si]
			base := runs[0]
			wit := func(cuts []int, run e3Run) map[string]interface{} {
				return map[string]interface{}{"bufsize": bufsize, "stream": Q(stream), "cuts": cuts, "steps": run.Steps, "panic": run.Panic}
			}
			if base.Panic != "" || len(base.Reqs) != len(ends) || base.Steps[len(base.Steps)-1].Closed {
				c.Violate(Violation{Class: "unsegmented-stream-misparsed", Shape: fmt.Sprintf("buf=%d", bufsize),
					Detail:  fmt.Sprintf("whole stream in one chunk: %d requests recognised, reference %d, closed=%v panic=%q", len(base.Reqs), len(ends), base.Steps[len(base.Steps)-1].Closed, base.Panic),
					Witness: wit(nil, base)})
				continue
			}
			for ri := 1; ri < len(runs); ri++ {
				run := runs[ri]
				cuts := in.Cases[si].Cuts[ri]
				c.Eval(1)
				mu.Lock()
				c.Distinct(fmt.Sprintf("%d/%d/%v", bufsize, si, cuts))
				mu.Unlock()
				if run.Panic != "" {
					c.Violate(Violation{Class: "panic-on-segmentation", Shape: fmt.Sprintf("buf=%d", bufsize), Detail: "decoder panicked: " + run.Panic, Witness: wit(cuts, run)})
					continue
				}
				fed := 0
				bad := false
				for k, st := range run.Steps {
					if k < len(cuts) && k < len(run.Steps)-1 {
						fed += cuts[k]
					} else {
						fed = len(stream)
					}
					want := 0
					for _, e := range ends {
						if e <= fed {
							want++
						}
					}
					if st.Closed {
						c.Violate(Violation{Class: "prefix-treated-as-error", Shape: cutShape(stream, ends, fed, bufsize),
							Detail:  fmt.Sprintf("connection closed after %d of %d bytes of a well-formed stream (chunk %d)", fed, len(stream), k),
							Witness: wit(cuts, run)})
						bad = true
						break
					}
					if st.Decoded != want {
						c.Violate(Violation{Class: "recognised-count-depends-on-segmentation", Shape: cutShape(stream, ends, fed, bufsize),
							Detail:  fmt.Sprintf("after %d bytes %d requests recognised, the bytes contain %d complete requests", fed, st.Decoded, want),
							Witness: wit(cuts, run)})
						bad = true
						break
					}
				}
				if bad {
					continue
				}
				if !reflect.DeepEqual(run.Reqs, base.Reqs) {
					idx := 0
					for idx < len(run.Reqs) && idx < len(base.Reqs) && reflect.DeepEqual(run.Reqs[idx], base.Reqs[idx]) {
						idx++
					}
					c.Violate(Violation{Class: "request-altered-by-segmentation", Shape: fmt.Sprintf("buf=%d", bufsize),
						Detail:  fmt.Sprintf("request %d differs from the one recognised when the stream arrives in one chunk", idx),
						Witness: wit(cuts, run)})
					continue
				}
				if run.Out != base.Out {
					c.Violate(Violation{Class: "replies-differ-by-segmentation", Shape: fmt.Sprintf("buf=%d", bufsize), Detail: "bytes written back differ", Witness: wit(cuts, run)})
				}
				c.Count("segmentations_agreeing", 1)
			}
		}
	}
	for _, bufsize := range []int{65536, 7} {
		lrng := rand.New(rand.NewSource(c.Seed*31 + int64(bufsize)))
		in := &e3In{BufSize: bufsize, MaxLen: 6 * 1024 * 1024}
		var streams [][]byte
		for i := 0; i < nstreams; i++ {
			var s []byte
			switch {
			case i%10 == 0:
				s = genStream(lrng, 2, 0)
				for len(s) > 70 {
					s = genStream(lrng, 1, 0)
				}
			case i == 2 && bufsize > 7:
				// arguments of 7- and 8-digit lengths (the longest header lines)
				big := make([]byte, 1000000+lrng.Intn(200000))
				lrng.Read(big)
				s = append(EncodeReq([]byte("SET"), []byte("bigkey"), big), Req("GET", "after")...)
				if c.Thorough() {
					big2 := make([]byte, 5500000)
					s = append(s, EncodeReq([]byte("SET"), []byte("bigkey2"), big2)...)
				}
			case i%25 == 1 && bufsize > 7:
				s = genStream(lrng, 3, c.Pick(70000, 1<<20)) // crosses ring growth thresholds
			default:
				s = genStream(lrng, c.Pick(12, 40), 0)
			}
			streams = append(streams, s)
			cs := e3Case{Stream: base64.StdEncoding.EncodeToString(s), Cuts: [][]int{nil}}
			n := len(s)
			if n <= 2000 {
				// every single cut
				for p := 1; p < n; p++ {
					cs.Cuts = append(cs.Cuts, []int{p})
				}
			} else {
				for k := 0; k < 40; k++ {
					cs.Cuts = append(cs.Cuts, []int{1 + lrng.Intn(n-1)})
				}
				// cuts inside and right behind every count / length line
				for _, hc := range headerCuts(s) {
					if hc > 0 && hc < n {
						cs.Cuts = append(cs.Cuts, []int{hc})
					}
				}
				// cuts right at and around element boundaries
				for _, e := range refBoundaries(s) {
					for d := -2; d <= 2; d++ {
						if e+d > 0 && e+d < n {
							cs.Cuts = append(cs.Cuts, []int{e + d})
						}
					}
				}
			}
			if n <= 70 {
				for p := 1; p < n; p++ {
					for q := p + 1; q < n; q++ {
						cs.Cuts = append(cs.Cuts, []int{p, q - p})
					}
				}
			}
			if n <= 3000 {
				ones := make([]int, n-1)
				for k := range ones {
					ones[k] = 1
				}
				cs.Cuts = append(cs.Cuts, ones) // byte by byte
			}
			for k := 0; k < 6; k++ { // random k-way
				var cuts []int
				rem := n
				maxc := 1 + lrng.Intn(60)
				if n > 5000 {
					maxc = 1 + lrng.Intn(n/3)
				}
				for rem > 1 {
					sz := 1 + lrng.Intn(maxc)
					if sz >= rem {
						break
					}
					cuts = append(cuts, sz)
					rem -= sz
				}
				if len(cuts) > 0 {
					cs.Cuts = append(cs.Cuts, cuts)
				}
			}
			if i%3 == 2 {
				// before every run of this case another connection is closed in the
				// middle of a request (its leftover bytes must die with it)
				poison := Req("SET", "secret", strings.Repeat("0123456789", 4+lrng.Intn(40)))
				cs.Poison = base64.StdEncoding.EncodeToString(poison[:len(poison)-1-lrng.Intn(len(poison)/2)])
			}
			in.Cases = append(in.Cases, cs)
		}
		out, last, err := runE3(in)
		if err != nil {
			if strings.Contains(err.Error(), "panic:") || strings.Contains(err.Error(), "fatal error:") {
				c.Violate(Violation{Class: "driver-process-died", Shape: fatalShape(firstFatalLine(err.Error())), Detail: "read path crashed while fed a well-formed stream; last case " + last,
					Witness: map[string]interface{}{"output": err.Error()}})
				c.Eval(1)
				continue
			}
			infra("E3 driver: %v", err)
		}
		judge(bufsize, streams, in, out)
		if len(streams) > 0 {
			c.Sample(map[string]interface{}{"engine": "E3", "bufsize": bufsize, "stream": Q(streams[0]), "segmentations": len(in.Cases[0].Cuts)})
		}
	}
	c08wire(c, rng)
}

// cutShape describes where the fed prefix ends relative to the request
// structure: inside which element kind.
func cutShape(stream []byte, ends []int, fed int, bufsize int) string {
	start := 0
	for _, e := range ends {
		if e <= fed {
			start = e
		}
	}
	rest := stream[start:fed]
	where := "at-request-boundary"
	if len(rest) > 0 {
		// find last header start
		i := len(rest) - 1
		switch {
		case rest[i] == '\n' && i > 0 && rest[i-1] == '\r':
			where = "after-CRLF"
		case rest[i] == '\r':
			where = "between-CR-and-LF"
		default:
			where = "inside-element"
		}
	}
	return fmt.Sprintf("buf=%d/%s", bufsize, where)
}

// c08wire: the same kind of streams over TCP with TCP_NODELAY chunked writes
// and pauses, proxy read buffer 64KB and 7 bytes; replies checked by the
// position oracle, forwarded bytes by the fake nodes' logs.
func c08wire(c *Check, rng *rand.Rand) {
	for _, sb := range []int{0, 7} {
		env, err := NewEnv(EnvOpt{Masters: 4, Cfg: ProxyCfg{StreamBuf: sb}})
		must(err, "start env")
		script := NewScript()
		env.Cl.SetHandler(script.Handler)
		n := c.Pick(40, 1500)
		for i := 0; i < n; i++ {
			if c.NViol() > 30 {
				c.Count("wire_part_cut_short_after_30_violations", 1)
				break
			}
			g := &pipeGen{env: env, script: script, rng: rng, gated: false, maxMultiKeys: 5,
				wSingle: 5, wMulti: 3}
			p := g.pipeline(1 + rng.Intn(10))
			if i%2 == 0 {
				// a client that hangs up in the middle of a request, in two writes
				ab, err := env.Dial()
				must(err, "dial")
				pz := Req("SET", "secret"+itoa(i), strings.Repeat("abcdefghij", 3+rng.Intn(30)))
				cut := len(pz) - 1 - rng.Intn(len(pz)/2)
				ab.SendChunks(pz[:cut], []int{cut / 2}, 200*time.Microsecond)
				env.Barrier()
				if rng.Intn(2) == 0 {
					ab.Abort()
				} else {
					ab.Close()
				}
				env.Barrier()
			}
			cl, err := env.Dial()
			must(err, "dial")
			b := concatReqs(p)
			var sizes []int
			maxc := 1 + rng.Intn(30)
			for rem := len(b); rem > 0; {
				s := 1 + rng.Intn(maxc)
				sizes = append(sizes, s)
				rem -= s
			}
			pause := time.Duration(0)
			if i%3 == 0 {
				pause = 300 * time.Microsecond
			}
			cl.SendChunks(b, sizes, pause)
			ok := cl.WaitReplies(len(p), 5*time.Second)
			if !ok {
				env.Barrier()
				time.Sleep(time.Second)
				env.Barrier()
			}
			s := cl.Snapshot()
			for _, is := range checkPipeline(p, s) {
				c.Violate(Violation{Class: "wire/" + is.Class, Shape: fmt.Sprintf("streambuf=%d/%s", sb, is.Shape), Detail: is.Detail,
					Witness: map[string]interface{}{"streambuf": sb, "pipeline": reqStrings(p), "chunks": sizes, "received": valStrings(s.Replies)}})
			}
			cl.Close()
			c.Eval(1)
			c.Distinct(fmt.Sprintf("wire/%d/%s/%v", sb, kindSig(p), sizes))
			c.Count("wire_replies_verified", int64(len(s.Replies)))
			if !env.P.Alive() {
				c.Violate(Violation{Class: "proxy-died", Shape: "chunked-stream", Detail: env.P.PanicLine(), Witness: env.P.OutputTail(2000)})
				break
			}
		}
		env.Close()
	}
}
