package lib

import (
	"fmt"
	"net"
	"sync"
	"syscall"
	"time"
)

// Recv is one reply received by a client.
type Recv struct {
	Val   Val
	Clock int64
	At    time.Time
}

// Client is a raw RESP client with an independent strict reply parser.
type Client struct {
	ID   int
	conn net.Conn
	tcp  *net.TCPConn

	mu       sync.Mutex
	cond     *sync.Cond
	replies  []Recv
	pending  []byte // unparsed tail
	garbage  []byte // bytes after a protocol violation
	garbErr  string
	closed   bool
	closedAt int64
	rawTotal int
	paused   bool
	Sent     [][]byte
	done     chan struct{}
}

var clientSeq int64
var clientSeqMu sync.Mutex

// DialClient connects to addr, optionally binding the local address
// (e.g. "127.0.0.3"); rcvbuf > 0 sets SO_RCVBUF before connecting.
func DialClient(addr, local string, rcvbuf int) (*Client, error) {
	d := net.Dialer{Timeout: 3 * time.Second}
	if local != "" {
		d.LocalAddr = &net.TCPAddr{IP: net.ParseIP(local)}
	}
	if rcvbuf > 0 {
		d.Control = func(network, address string, c syscall.RawConn) error {
			var e error
			c.Control(func(fd uintptr) {
				e = syscall.SetsockoptInt(int(fd), syscall.SOL_SOCKET, syscall.SO_RCVBUF, rcvbuf)
			})
			return e
		}
	}
	c, err := d.Dial("tcp4", addr)
	if err != nil {
		return nil, err
	}
	clientSeqMu.Lock()
	clientSeq++
	id := int(clientSeq)
	clientSeqMu.Unlock()
	cl := &Client{ID: id, conn: c, done: make(chan struct{})}
	cl.cond = sync.NewCond(&cl.mu)
	if tc, ok := c.(*net.TCPConn); ok {
		tc.SetNoDelay(true)
		cl.tcp = tc
	}
	go cl.readLoop()
	return cl, nil
}

func (c *Client) readLoop() {
	defer close(c.done)
	tmp := make([]byte, 256*1024)
	for {
		c.mu.Lock()
		for c.paused && !c.closed {
			c.cond.Wait()
		}
		c.mu.Unlock()
		n, err := c.conn.Read(tmp)
		c.mu.Lock()
		if n > 0 {
			c.rawTotal += n
			if c.garbErr != "" {
				if len(c.garbage) < 4096 {
					c.garbage = append(c.garbage, tmp[:n]...)
				}
			} else {
				c.pending = append(c.pending, tmp[:n]...)
				off := 0
				for off < len(c.pending) {
					v, used, perr := ParseReply(c.pending[off:])
					if perr == ErrIncomplete {
						break
					}
					if perr != nil {
						c.garbErr = perr.Error()
						c.garbage = append([]byte(nil), c.pending[off:]...)
						off = len(c.pending)
						break
					}
					v.Raw = append([]byte(nil), v.Raw...)
					c.replies = append(c.replies, Recv{Val: v, Clock: Tick(), At: time.Now()})
					off += used
				}
				c.pending = append(c.pending[:0], c.pending[off:]...)
			}
		}
		if err != nil {
			c.closed = true
			c.closedAt = Tick()
			c.cond.Broadcast()
			c.mu.Unlock()
			return
		}
		c.cond.Broadcast()
		c.mu.Unlock()
	}
}

// PauseReading makes the reader stop calling read() (the kernel buffer fills).
func (c *Client) PauseReading(p bool) {
	c.mu.Lock()
	c.paused = p
	c.cond.Broadcast()
	c.mu.Unlock()
}

// Send writes b in one write call.
func (c *Client) Send(b []byte) error {
	c.mu.Lock()
	c.Sent = append(c.Sent, b)
	c.mu.Unlock()
	_, err := c.conn.Write(b)
	return err
}

// SendChunks writes b cut into the given chunk sizes (remainder in one write),
// pausing between writes.
func (c *Client) SendChunks(b []byte, sizes []int, pause time.Duration) error {
	c.mu.Lock()
	c.Sent = append(c.Sent, b)
	c.mu.Unlock()
	off := 0
	for _, s := range sizes {
		if s <= 0 {
			continue
		}
		if off+s >= len(b) {
			break
		}
		if _, err := c.conn.Write(b[off : off+s]); err != nil {
			return err
		}
		off += s
		if pause > 0 {
			time.Sleep(pause)
		}
	}
	if off < len(b) {
		_, err := c.conn.Write(b[off:])
		return err
	}
	return nil
}

// WaitReplies waits until at least n replies were parsed, the connection
// closed, garbage was seen, or the timeout expired. It returns true when n
// replies are there.
func (c *Client) WaitReplies(n int, timeout time.Duration) bool {
	deadline := time.Now().Add(timeout)
	c.mu.Lock()
	defer c.mu.Unlock()
	for len(c.replies) < n && !c.closed && c.garbErr == "" {
		rem := time.Until(deadline)
		if rem <= 0 {
			return false
		}
		t := time.AfterFunc(minDur(rem, 50*time.Millisecond), func() {
			c.mu.Lock()
			c.cond.Broadcast()
			c.mu.Unlock()
		})
		c.cond.Wait()
		t.Stop()
	}
	return len(c.replies) >= n
}

// WaitClosed waits for the peer to close.
func (c *Client) WaitClosed(timeout time.Duration) bool {
	select {
	case <-c.done:
		return true
	case <-time.After(timeout):
		return false
	}
}

func minDur(a, b time.Duration) time.Duration {
	if a < b {
		return a
	}
	return b
}

// Snap is a consistent snapshot of what a client has received.
type Snap struct {
	Replies  []Recv
	Pending  []byte
	Garbage  []byte
	GarbErr  string
	Closed   bool
	RawTotal int
}

func (c *Client) Snapshot() Snap {
	c.mu.Lock()
	defer c.mu.Unlock()
	return Snap{
		Replies:  append([]Recv(nil), c.replies...),
		Pending:  append([]byte(nil), c.pending...),
		Garbage:  append([]byte(nil), c.garbage...),
		GarbErr:  c.garbErr,
		Closed:   c.closed,
		RawTotal: c.rawTotal,
	}
}

func (c *Client) NReplies() int {
	c.mu.Lock()
	defer c.mu.Unlock()
	return len(c.replies)
}

func (c *Client) IsClosed() bool {
	c.mu.Lock()
	defer c.mu.Unlock()
	return c.closed
}

// Close closes the socket (FIN).
func (c *Client) Close() { c.conn.Close(); c.PauseReading(false) }

// Abort closes with RST.
func (c *Client) Abort() {
	if c.tcp != nil {
		c.tcp.SetLinger(0)
	}
	c.conn.Close()
	c.PauseReading(false)
}

func (c *Client) LocalAddr() string { return c.conn.LocalAddr().String() }

// Barrier proves that the proxy's event loop completed at least k rounds:
// k PING/PONG round trips on a dedicated witness connection.
type Witness struct {
	mu sync.Mutex
	c  *Client
	n  int
}

func NewWitness(addr string) (*Witness, error) {
	c, err := DialClient(addr, "", 0)
	if err != nil {
		return nil, err
	}
	return &Witness{c: c}, nil
}

var pingReq = Req("PING")

// Barrier performs k round trips; error when the proxy does not answer
// within the watchdog.
func (w *Witness) Barrier(k int, watchdog time.Duration) error {
	w.mu.Lock()
	defer w.mu.Unlock()
	for i := 0; i < k; i++ {
		if err := w.c.Send(pingReq); err != nil {
			return fmt.Errorf("witness send: %v", err)
		}
		w.n++
		if !w.c.WaitReplies(w.n, watchdog) {
			return fmt.Errorf("witness: no PONG within %v (closed=%v)", watchdog, w.c.IsClosed())
		}
	}
	return nil
}

func (w *Witness) Close() { w.c.Close() }
