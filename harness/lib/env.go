package lib

import (
	"fmt"
	"os"
	"path/filepath"
	"sync"
	"sync/atomic"
	"time"
)

// Env is one proxy instance in front of one fake cluster.
type Env struct {
	Dir string
	Cl  *Cluster
	T   *Topo
	P   *Proxy
	W   *Witness
	Bin string
	// unresponsive is set once the witness connection's PING stayed unanswered for the
	// whole watchdog although the proxy process is alive; later barriers fail at once.
	unresponsive int32
}

// OnUnresponsive, when set, is told about the first barrier of an environment that
// failed although the proxy is alive and the witness connection is open: the event
// loop no longer serves a connection that only ever sent PING.
var OnUnresponsive func(e *Env, err error)

var errUnresponsive = fmt.Errorf("proxy no longer answers the witness connection")

type EnvOpt struct {
	Masters  int
	Replicas int // per master
	Extra    int // extra nodes started but not in the topology
	Cfg      ProxyCfg
	Mode     string // "", "race", "asan"
	Topo     func(cl *Cluster) *Topo
	NoWait   bool
	// SeedReplicas: the proxy's configured servers are replica addresses of the topology
	SeedReplicas bool
}

var (
	tmpRoot   string
	tmpOnce   sync.Once
	binMu     sync.Mutex
	bins      = map[string]string{}
	envSeq    int
	envSeqMu  sync.Mutex
	allEnvs   []*Env
	allEnvsMu sync.Mutex
)

// TmpRoot returns this process's scratch directory (removed by Cleanup).
func TmpRoot() string {
	tmpOnce.Do(func() {
		// scratch directories of runs that were killed hard are swept after 3 hours
		if old, _ := filepath.Glob(filepath.Join(os.TempDir(), "vcheck-*")); len(old) > 0 {
			for _, o := range old {
				if fi, err := os.Stat(o); err == nil && time.Since(fi.ModTime()) > 3*time.Hour {
					os.RemoveAll(o)
				}
			}
		}
		d, err := os.MkdirTemp("", "vcheck-")
		if err != nil {
			panic(err)
		}
		tmpRoot = d
	})
	return tmpRoot
}

// Cleanup stops every proxy and removes the scratch directory.
func Cleanup() {
	allEnvsMu.Lock()
	es := append([]*Env(nil), allEnvs...)
	allEnvsMu.Unlock()
	for _, e := range es {
		e.Close()
	}
	if tmpRoot != "" && os.Getenv("VCHECK_KEEP") == "" {
		os.RemoveAll(tmpRoot)
	}
}

// ProxyBin builds (once per process and mode) the proxy from /repo's current
// working tree.
func ProxyBin(mode string) (string, error) {
	binMu.Lock()
	defer binMu.Unlock()
	if b, ok := bins[mode]; ok {
		return b, nil
	}
	b, err := BuildProxy(TmpRoot(), mode)
	if err != nil {
		return "", err
	}
	bins[mode] = b
	return b, nil
}

func NewEnv(opt EnvOpt) (*Env, error) {
	bin, err := ProxyBin(opt.Mode)
	if err != nil {
		return nil, err
	}
	if opt.Masters == 0 {
		opt.Masters = 3
	}
	n := opt.Masters*(1+opt.Replicas) + opt.Extra
	cl, err := NewCluster(n, opt.Cfg.Password)
	if err != nil {
		return nil, err
	}
	var t *Topo
	if opt.Topo != nil {
		t = opt.Topo(cl)
	} else {
		t = EvenTopo(cl, opt.Masters, opt.Replicas)
	}
	t.Install(cl)
	envSeqMu.Lock()
	envSeq++
	dir := filepath.Join(TmpRoot(), fmt.Sprintf("env%d", envSeq))
	envSeqMu.Unlock()
	cfg := opt.Cfg
	if opt.SeedReplicas {
		cfg.Servers = nil
		for _, tn := range t.Nodes {
			if !tn.Master && tn.Node != nil && !tn.Node.Loading && len(cfg.Servers) < 3 {
				cfg.Servers = append(cfg.Servers, tn.Addr)
			}
		}
	}
	if len(cfg.Servers) == 0 {
		for i := 0; i < opt.Masters && i < 3; i++ {
			cfg.Servers = append(cfg.Servers, cl.Nodes[i].Addr)
		}
	}
	// The listening port is picked by probing; if another socket took it in the
	// meantime the proxy exits with "address already in use" - at once, or (loaded
	// machine) a little later: a proxy that exits during start is started again with
	// another port, up to four times. A proxy that stays alive but never serves is not
	// retried (that is a behaviour to report, see NotReadyError).
	var p *Proxy
	for attempt := 0; ; attempt++ {
		d := dir
		if attempt > 0 {
			d = fmt.Sprintf("%s.r%d", dir, attempt)
		}
		p, err = StartProxy(bin, d, cfg)
		if err != nil {
			cl.Close()
			return nil, err
		}
		if opt.NoWait {
			time.Sleep(300 * time.Millisecond)
			if p.Alive() || attempt >= 3 {
				break
			}
			continue
		}
		err = p.WaitReady(20 * time.Second)
		if err == nil {
			break
		}
		if _, notReady := err.(*NotReadyError); notReady || attempt >= 3 {
			e := &Env{Dir: p.Dir, Cl: cl, T: t, P: p, Bin: bin}
			e.Close()
			return nil, err
		}
		p.Stop()
	}
	e := &Env{Dir: p.Dir, Cl: cl, T: t, P: p, Bin: bin}
	allEnvsMu.Lock()
	allEnvs = append(allEnvs, e)
	allEnvsMu.Unlock()
	if !opt.NoWait {
		w, err := NewWitness(p.Addr)
		if err != nil {
			e.Close()
			return nil, err
		}
		e.W = w
	}
	return e, nil
}

// Restart starts a new proxy process with the same configuration (after a
// crash) and waits for it to be ready.
func (e *Env) Restart() error {
	if e.W != nil {
		e.W.Close()
		e.W = nil
	}
	e.P.Stop()
	envSeqMu.Lock()
	envSeq++
	dir := filepath.Join(TmpRoot(), fmt.Sprintf("env%d", envSeq))
	envSeqMu.Unlock()
	p, err := StartProxy(e.Bin, dir, e.P.Cfg)
	if err != nil {
		return err
	}
	e.P = p
	e.Dir = dir
	if err := p.WaitReady(20 * time.Second); err != nil {
		return err
	}
	w, err := NewWitness(p.Addr)
	if err != nil {
		return err
	}
	e.W = w
	atomic.StoreInt32(&e.unresponsive, 0)
	return nil
}

// Barrier passes the event-loop barrier (k PING round trips on the witness).
func (e *Env) Barrier() error {
	if atomic.LoadInt32(&e.unresponsive) != 0 {
		return errUnresponsive
	}
	if e.W == nil {
		return fmt.Errorf("no witness connection")
	}
	err := e.W.Barrier(8, 15*time.Second)
	if err != nil {
		// give the exit of a dying proxy time to be noticed, so that callers
		// can tell "proxy died" from "harness trouble"
		for i := 0; i < 20 && e.P.Alive(); i++ {
			time.Sleep(50 * time.Millisecond)
		}
		if e.P.Alive() && !e.W.c.IsClosed() && atomic.CompareAndSwapInt32(&e.unresponsive, 0, 1) && OnUnresponsive != nil {
			OnUnresponsive(e, err)
		}
	}
	return err
}

func (e *Env) Close() {
	if e.W != nil {
		e.W.Close()
	}
	if e.P != nil {
		e.P.Stop()
	}
	if e.Cl != nil {
		e.Cl.Close()
		// the environment stays listed for Cleanup: drop what the fake nodes recorded
		e.Cl.ForgetRequests()
	}
}

// Dial opens a client to the proxy.
func (e *Env) Dial() (*Client, error) { return DialClient(e.P.Addr, "", 0) }
