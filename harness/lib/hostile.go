package lib

// Grammar-based generator of hostile client inputs (used by C12 on the wire and
// in-process).

import (
	"bytes"
	"fmt"
	"math/big"
	"math/rand"
	"strconv"
)

// Hostile is one hostile client input.
type Hostile struct {
	Data   []byte
	Chunks []int
	Origin string
}

func mutateNumber(rng *rand.Rand, orig string) string {
	opts := []string{"0", "-1", "-0", "-2", "", "+" + orig, "0" + orig, " " + orig, orig + " ", "99999999999999999999999999999", "18446744073709551616",
		"9223372036854775807", "-9223372036854775808", "2147483648", "4294967296", "1048577", "536870913", "1e3", "0x10", orig + "a", "٣",
		"9223372036854775808", "9223372036854775809", "18446744073709551617", "18446744073709551618", "18446744073709551619", "36893488147419103234",
		"18446744073709551620", "-9223372036854775809", "00000000000000000000" + orig, "184467440737095516160000000003"}
	if v, err := strconv.Atoi(orig); err == nil && rng.Intn(6) == 0 {
		// 2^64 + v: wraps to exactly v in a 64-bit accumulator
		return new(big.Int).Add(new(big.Int).Lsh(big.NewInt(1), 64), big.NewInt(int64(v))).String()
	}
	return opts[rng.Intn(len(opts))]
}

// genHostile produces one hostile input: a valid request stream with a
// grammar-aware mutation, or random bytes.
func GenHostile(rng *rand.Rand) Hostile {
	var valid []byte
	nreq := 1 + rng.Intn(3)
	for i := 0; i < nreq; i++ {
		switch rng.Intn(4) {
		case 0:
			valid = append(valid, Req("SET", "hk"+strconv.Itoa(rng.Intn(100)), "value")...)
		case 1:
			valid = append(valid, Req("MGET", "ha", "hb", "hc")...)
		case 2:
			valid = append(valid, Req("PING")...)
		default:
			valid = append(valid, Req("GET", "hk"+strconv.Itoa(rng.Intn(100)))...)
		}
	}
	h := Hostile{Origin: "mutation"}
	d := append([]byte(nil), valid...)
	// positions of header lines
	type hdr struct{ start, end int } // [start,end) of the number text
	var hdrs []hdr
	for i := 0; i < len(d); i++ {
		if (d[i] == '*' || d[i] == '$') && (i == 0 || d[i-1] == '\n') {
			j := i + 1
			for j < len(d) && d[j] != '\r' {
				j++
			}
			hdrs = append(hdrs, hdr{i + 1, j})
		}
	}
	switch rng.Intn(16) {
	case 0, 1, 2, 3: // number mutation
		x := hdrs[rng.Intn(len(hdrs))]
		nw := mutateNumber(rng, string(d[x.start:x.end]))
		d = append(append(append([]byte(nil), d[:x.start]...), nw...), d[x.end:]...)
		h.Origin = "number-mutation"
	case 4: // wrong type marker
		x := hdrs[rng.Intn(len(hdrs))]
		d[x.start-1] = "+-:$*%~#!x"[rng.Intn(10)]
		h.Origin = "type-marker"
	case 5: // bare LF
		i := bytes.Index(d, []byte("\r\n"))
		k := rng.Intn(bytes.Count(d, []byte("\r\n")))
		for ; k > 0; k-- {
			i += 2 + bytes.Index(d[i+2:], []byte("\r\n"))
		}
		d = append(append([]byte(nil), d[:i]...), d[i+1:]...)
		h.Origin = "bare-LF"
	case 6: // bare CR
		i := bytes.Index(d, []byte("\r\n"))
		d = append(append([]byte(nil), d[:i+1]...), d[i+2:]...)
		h.Origin = "bare-CR"
	case 7: // inline command
		d = []byte([]string{"PING\r\n", "GET foo\r\n", "SET a b\r\n", "get\n", "QUIT\r\n", "\r\n", "\n", " \r\n"}[rng.Intn(8)])
		d = append(d, valid...)
		h.Origin = "inline"
	case 8: // truncation followed by garbage
		cut := rng.Intn(len(d) + 1)
		g := make([]byte, 1+rng.Intn(30))
		rng.Read(g)
		d = append(append([]byte(nil), d[:cut]...), g...)
		h.Origin = "truncate+garbage"
	case 9: // NULs
		for k := 1 + rng.Intn(4); k > 0; k-- {
			d[rng.Intn(len(d))] = 0
		}
		h.Origin = "NULs"
	case 10: // random bytes
		d = make([]byte, 1+rng.Intn(200))
		rng.Read(d)
		h.Origin = "random-bytes"
	case 11: // random bytes starting like RESP
		d = make([]byte, 4+rng.Intn(60))
		rng.Read(d)
		copy(d, []byte("*"+strconv.Itoa(rng.Intn(4))+"\r\n"))
		h.Origin = "random-after-count"
	case 12: // only headers, nothing else
		d = []byte([]string{"*\r\n", "*\n", "*2\n", "$3\r\nabc\r\n", "*1\r\n$\r\n", "*1\r\n$1\r\n", "**1\r\n", "*1\r\n\r\n", "*1\r\n$-1\r\n", "*0\r\n", "*-1\r\n", "*1\r\n$0\r\n\r\n"}[rng.Intn(12)])
		if rng.Intn(2) == 0 {
			d = append(d, valid...)
		}
		h.Origin = "header-only"
	case 13: // byte flip
		d[rng.Intn(len(d))] ^= byte(1 << uint(rng.Intn(8)))
		h.Origin = "bit-flip"
	case 14: // delete / duplicate a byte
		i := rng.Intn(len(d))
		if rng.Intn(2) == 0 {
			d = append(append([]byte(nil), d[:i]...), d[i+1:]...)
		} else {
			d = append(append(append([]byte(nil), d[:i+1]...), d[i]), d[i+1:]...)
		}
		h.Origin = "byte-delete/dup"
	default: // payload length off by one
		x := hdrs[rng.Intn(len(hdrs))]
		if d[x.start-1] == '$' {
			var v int
			fmt.Sscan(string(d[x.start:x.end]), &v)
			nw := strconv.Itoa(v + []int{-1, 1, 2}[rng.Intn(3)])
			d = append(append(append([]byte(nil), d[:x.start]...), nw...), d[x.end:]...)
		}
		h.Origin = "length-off-by-one"
	}
	h.Data = d
	if rng.Intn(2) == 0 {
		for rem := len(d); rem > 0; {
			s := 1 + rng.Intn(12)
			h.Chunks = append(h.Chunks, s)
			rem -= s
		}
	}
	return h
}
