package lib

import (
	"bytes"
	"fmt"
	"strings"
	"sync"
)

// Script maps the first key of a backend request to a planned behaviour
// (gate, reply, fault). Requests without a plan get ValueReply.
type Script struct {
	mu    sync.Mutex
	plans map[string]*Plan
}

type Plan struct {
	Gate *Gate
	Act  func(r *BReq) Action // nil: reply ValueReply(r) (behind Gate)
	mu   sync.Mutex
	Seen []*BReq
}

func NewScript() *Script { return &Script{plans: map[string]*Plan{}} }

// Plan returns (creating if needed) the plan for requests whose first key is key.
func (s *Script) Plan(key string) *Plan {
	s.mu.Lock()
	defer s.mu.Unlock()
	p := s.plans[key]
	if p == nil {
		p = &Plan{}
		s.plans[key] = p
	}
	return p
}

func (s *Script) Lookup(key string) *Plan {
	s.mu.Lock()
	defer s.mu.Unlock()
	return s.plans[key]
}

func (s *Script) Forget(keys ...string) {
	s.mu.Lock()
	for _, k := range keys {
		delete(s.plans, k)
	}
	s.mu.Unlock()
}

func (p *Plan) SeenReqs() []*BReq {
	p.mu.Lock()
	defer p.mu.Unlock()
	return append([]*BReq(nil), p.Seen...)
}

// FirstKey returns the routing key of a backend request.
func FirstKey(r *BReq) string {
	if r.Cmd == "eval" || r.Cmd == "evalsha" {
		return r.Arg(3)
	}
	return r.Arg(1)
}

func (s *Script) Handler(r *BReq) Action {
	p := s.Lookup(FirstKey(r))
	if p == nil {
		return Action{Reply: ValueReply(r)}
	}
	p.mu.Lock()
	p.Seen = append(p.Seen, r)
	p.mu.Unlock()
	var a Action
	if p.Act != nil {
		a = p.Act(r)
	} else {
		a = Action{Reply: ValueReply(r)}
	}
	if a.Gate == nil {
		a.Gate = p.Gate
	}
	return a
}

// ValueOf is the value the fake cluster holds for key: absent when the key
// contains "#absent", else "v:"+key.
func ValueOf(key []byte) []byte {
	if bytes.Contains(key, []byte("#absent")) {
		return nil
	}
	return append([]byte("v:"), key...)
}

func bulkOrNull(v []byte) []byte {
	if v == nil {
		return NullBulk()
	}
	return BulkReply(v)
}

// ValueReply is the deterministic default reply of the fake cluster.
func ValueReply(r *BReq) []byte {
	if len(r.Args) < 2 {
		// a command without arguments should never have been forwarded; answer like Redis would
		return ErrReply("ERR wrong number of arguments for '" + r.Cmd + "' command")
	}
	switch r.Cmd {
	case "get":
		return bulkOrNull(ValueOf(r.Args[1]))
	case "mget":
		el := make([][]byte, 0, len(r.Args)-1)
		for _, k := range r.Args[1:] {
			el = append(el, bulkOrNull(ValueOf(k)))
		}
		return ArrayReply(el...)
	case "mset", "set", "setex", "psetex", "hmset", "ltrim", "lset", "restore", "pfmerge":
		return StatusReply("OK")
	case "del":
		n := 0
		for _, k := range r.Args[1:] {
			if ValueOf(k) != nil {
				n++
			}
		}
		return IntReply(int64(n))
	}
	return BulkReply([]byte(fmt.Sprintf("r:%s:%s", r.Cmd, FirstKey(r))))
}

// Key builds a key that lands in slot and carries token.
func Key(slot int, token string) string {
	return "{" + SlotTag(slot) + "}" + token
}

// SplitKeys is the reference splitter: groups key indexes by slot, slots in
// order of first appearance.
func SplitKeys(keys [][]byte) (slots []int, groups map[int][]int) {
	groups = map[int][]int{}
	for i, k := range keys {
		s := KeySlot(k)
		if _, ok := groups[s]; !ok {
			slots = append(slots, s)
		}
		groups[s] = append(groups[s], i)
	}
	return
}

func LowerCmd(b []byte) string { return strings.ToLower(string(b)) }
