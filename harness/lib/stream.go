package lib

import (
	"bytes"
	"fmt"
)

// StreamClass is the reference judgement of a client byte stream against the
// grammar of well-formed request streams: a sequence of RESP arrays
// "*<n>\r\n" (canonical decimal, 1 <= n <= 1048576) of n bulk strings
// "$<len>\r\n<len bytes>\r\n" (canonical decimal, 0 <= len <= 512 MB).
type StreamClass struct {
	Complete int    // complete well-formed requests before the point of judgement
	State    string // "complete" (ends at a request boundary), "prefix" (valid so far, incomplete), "invalid", "oversized" (count/length beyond what a server accepts: no requirement)
	Reason   string // for invalid: canonical reason (the shape of the failing input)
	Offset   int    // offset of the offending element
}

func headerLine(b []byte) (line []byte, n int, state string, reason string) {
	i := bytes.IndexByte(b, '\n')
	if i < 0 {
		// no LF yet: the line can still become valid only if everything after the
		// marker is digits, optionally ending in a CR, and it is not longer than
		// the longest valid header ("$536870912\r" = 11 bytes before the LF)
		body := b[1:]
		for j, c := range body {
			if c == '\r' {
				if j != len(body)-1 {
					return nil, 0, "invalid", "CR-not-followed-by-LF"
				}
			} else if c < '0' || c > '9' {
				return nil, 0, "invalid", "non-digit-in-header"
			}
		}
		if len(b) > 12 {
			return nil, 0, "invalid", "header-line-too-long"
		}
		return nil, 0, "prefix", ""
	}
	if i == 0 || b[i-1] != '\r' {
		return nil, 0, "invalid", "bare-LF"
	}
	if bytes.IndexByte(b[:i-1], '\r') >= 0 {
		return nil, 0, "invalid", "CR-not-followed-by-LF"
	}
	return b[:i-1], i + 1, "", ""
}

func numReason(kind string, body []byte) string {
	switch {
	case len(body) == 0:
		return kind + "=empty"
	case string(body) == "0":
		return kind + "=0"
	case body[0] == '-':
		ok := len(body) > 1
		for _, c := range body[1:] {
			if c < '0' || c > '9' {
				ok = false
			}
		}
		if ok {
			return kind + "=negative"
		}
		return kind + "=not-a-number"
	}
	alld := true
	for _, c := range body {
		if c < '0' || c > '9' {
			alld = false
		}
	}
	if alld && body[0] == '0' {
		return kind + "=leading-zero"
	}
	if alld {
		return kind + "=too-many-digits"
	}
	if body[0] == '+' {
		return kind + "=plus-sign"
	}
	if body[0] == ' ' || body[len(body)-1] == ' ' {
		return kind + "=space-padded"
	}
	return kind + "=not-a-number"
}

// ClassifyStream judges b.
func ClassifyStream(b []byte) StreamClass {
	off := 0
	complete := 0
	for {
		if off == len(b) {
			return StreamClass{Complete: complete, State: "complete"}
		}
		if b[off] != '*' {
			return StreamClass{Complete: complete, State: "invalid", Reason: fmt.Sprintf("first-byte-not-array:%s", byteClass(b[off])), Offset: off}
		}
		line, n, st, reason := headerLine(b[off:])
		if st != "" {
			return StreamClass{Complete: complete, State: st, Reason: "count-line:" + reason, Offset: off}
		}
		cnt, ok := canonInt(line[1:])
		if !ok || cnt < 1 {
			return StreamClass{Complete: complete, State: "invalid", Reason: numReason("count", line[1:]), Offset: off}
		}
		if cnt > 1024*1024 {
			return StreamClass{Complete: complete, State: "oversized", Reason: "count>1M", Offset: off}
		}
		p := off + n
		for i := int64(0); i < cnt; i++ {
			if p == len(b) {
				return StreamClass{Complete: complete, State: "prefix"}
			}
			if b[p] != '$' {
				return StreamClass{Complete: complete, State: "invalid", Reason: fmt.Sprintf("element-not-bulk:%s", byteClass(b[p])), Offset: p}
			}
			line, n, st, reason := headerLine(b[p:])
			if st != "" {
				return StreamClass{Complete: complete, State: st, Reason: "length-line:" + reason, Offset: p}
			}
			l, ok := canonInt(line[1:])
			if !ok || l < 0 {
				return StreamClass{Complete: complete, State: "invalid", Reason: numReason("bulklen", line[1:]), Offset: p}
			}
			if l > 512*1024*1024 {
				return StreamClass{Complete: complete, State: "oversized", Reason: "bulklen>512MB", Offset: p}
			}
			p += n
			if int64(len(b)-p) < l+2 {
				// payload incomplete; the terminator may already be wrong
				if int64(len(b)-p) == l+1 && b[p+int(l)] != '\r' {
					return StreamClass{Complete: complete, State: "invalid", Reason: "payload-not-terminated-by-CRLF", Offset: p}
				}
				return StreamClass{Complete: complete, State: "prefix"}
			}
			if b[p+int(l)] != '\r' || b[p+int(l)+1] != '\n' {
				return StreamClass{Complete: complete, State: "invalid", Reason: "payload-not-terminated-by-CRLF", Offset: p}
			}
			p += int(l) + 2
		}
		complete++
		off = p
	}
}

func byteClass(c byte) string {
	switch {
	case c == '\r':
		return "CR"
	case c == '\n':
		return "LF"
	case c == '$', c == '+', c == '-', c == ':':
		return "resp-marker"
	case c >= 'a' && c <= 'z' || c >= 'A' && c <= 'Z':
		return "letter(inline)"
	case c >= '0' && c <= '9':
		return "digit"
	case c == 0:
		return "NUL"
	case c < 32 || c >= 127:
		return "binary"
	}
	return "other"
}
