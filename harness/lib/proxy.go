package lib

import (
	"bytes"
	"fmt"
	"os"
	"os/exec"
	"path/filepath"
	"strconv"
	"strings"
	"sync"
	"syscall"
	"time"
)

// GoEnv is the environment every go command needs in this sandbox.
func GoEnv() []string {
	env := os.Environ()
	env = append(env, "GOFLAGS=-mod=mod", "GOPROXY=off", "GOSUMDB=off", "GOTOOLCHAIN=local")
	return env
}

// RepoDir is the tree every check builds from: /repo. (VCHECK_REPO lets the seeded-change
// tooling point a run at a scratch worktree so that several changes can be tried in
// parallel; no registered command sets it.)
var RepoDir = func() string {
	if d := os.Getenv("VCHECK_REPO"); d != "" {
		return d
	}
	return "/repo"
}()

// BuildProxy builds /repo's current working tree with -tags verif into dir.
// mode is "", "race" or "asan".
func BuildProxy(dir, mode string) (string, error) {
	out := filepath.Join(dir, "rcproxy"+mode)
	args := []string{"build", "-tags", "verif"}
	switch mode {
	case "race":
		args = append(args, "-race")
	case "asan":
		args = append(args, "-asan")
	}
	args = append(args, "-o", out, ".")
	cmd := exec.Command("go", args...)
	cmd.Dir = RepoDir
	cmd.Env = GoEnv()
	b, err := cmd.CombinedOutput()
	if err != nil {
		return "", fmt.Errorf("go build failed: %v\n%s", err, b)
	}
	return out, nil
}

type ProxyCfg struct {
	Servers            []string
	Password           string
	DisableSlave       bool
	Preconnect         bool
	Timeout            int // ms, 0 = none
	MsgMax             int // 0 = default
	ConnTimeout        int
	ServerRetryTimeout int
	ServerConnections  int
	StreamBuf          int // RCPROXY_VERIF_STREAMBUF, 0 = default
	SlowLog            int // slowlog_slower_than in ms, 0 = off
	LogLevel           string
	WhiteEnable        bool
	WhiteList          []string
	Env                []string
}

type Proxy struct {
	Cfg     ProxyCfg
	Dir     string // config dir (contains rc.yaml, authip.yaml, log/)
	Port    int
	Addr    string
	cmd     *exec.Cmd
	outPath string
	mu      sync.Mutex
	exited  bool
	exitErr error
	done    chan struct{}
	MaxRSS  int64
}

// FreePort returns a port that no socket of any local address uses: the proxy
// binds the wildcard address without SO_REUSEADDR semantics for connections in
// TIME_WAIT, so a port that is merely free on 127.0.0.1 (net.Listen sets
// SO_REUSEADDR and would accept it) can still be refused to it.
func FreePort() int {
	fd, err := syscall.Socket(syscall.AF_INET, syscall.SOCK_STREAM, 0)
	if err != nil {
		return 0
	}
	defer syscall.Close(fd)
	if err := syscall.Bind(fd, &syscall.SockaddrInet4{Port: 0}); err != nil {
		return 0
	}
	sa, err := syscall.Getsockname(fd)
	if err != nil {
		return 0
	}
	if in4, ok := sa.(*syscall.SockaddrInet4); ok {
		return in4.Port
	}
	return 0
}

// WhiteListYAML renders the authip.yaml content.
func WhiteListYAML(enable bool, ips []string) string {
	var sb strings.Builder
	fmt.Fprintf(&sb, "enable: %v\n\nip_white_list:\n", enable)
	for _, ip := range ips {
		fmt.Fprintf(&sb, "  - %s\n", ip)
	}
	return sb.String()
}

// StartProxy writes the configuration under dir and starts bin.
func StartProxy(bin, dir string, cfg ProxyCfg) (*Proxy, error) {
	if err := os.MkdirAll(dir, 0o755); err != nil {
		return nil, err
	}
	port := FreePort()
	if cfg.LogLevel == "" {
		cfg.LogLevel = "ERROR"
	}
	if cfg.ConnTimeout == 0 {
		cfg.ConnTimeout = 500
	}
	if cfg.ServerRetryTimeout == 0 {
		cfg.ServerRetryTimeout = 500
	}
	if cfg.ServerConnections == 0 {
		cfg.ServerConnections = 1
	}
	var sb strings.Builder
	fmt.Fprintf(&sb, "port: %d\nweb_port: 0\nlog_path: %s\nlog_level: %s\nlog_expire_day: 1\n\nredis:\n", port, filepath.Join(dir, "log"), cfg.LogLevel)
	fmt.Fprintf(&sb, "  servers: %s\n", strings.Join(cfg.Servers, ","))
	fmt.Fprintf(&sb, "  password: %s\n", cfg.Password)
	fmt.Fprintf(&sb, "  preconnect: %v\n", cfg.Preconnect)
	if cfg.MsgMax > 0 {
		fmt.Fprintf(&sb, "  msg_max_length_limit: %d\n", cfg.MsgMax)
	}
	fmt.Fprintf(&sb, "  slowlog_slower_than: %d\n  timeout: %d\n  conn_timeout: %d\n  server_retry_timeout: %d\n  disable_slave: %v\n  server_connections: %d\n",
		cfg.SlowLog, cfg.Timeout, cfg.ConnTimeout, cfg.ServerRetryTimeout, cfg.DisableSlave, cfg.ServerConnections)
	if err := os.WriteFile(filepath.Join(dir, "rc.yaml"), []byte(sb.String()), 0o644); err != nil {
		return nil, err
	}
	if err := os.WriteFile(filepath.Join(dir, "authip.yaml"), []byte(WhiteListYAML(cfg.WhiteEnable, cfg.WhiteList)), 0o644); err != nil {
		return nil, err
	}
	p := &Proxy{Cfg: cfg, Dir: dir, Port: port, Addr: fmt.Sprintf("127.0.0.1:%d", port), done: make(chan struct{})}
	p.outPath = filepath.Join(dir, "proxy.out")
	of, err := os.Create(p.outPath)
	if err != nil {
		return nil, err
	}
	cmd := exec.Command(bin, "-p", dir)
	cmd.Dir = dir
	cmd.Stdout = of
	cmd.Stderr = of
	cmd.Env = append(os.Environ(), cfg.Env...)
	cmd.Env = append(cmd.Env, "GOTRACEBACK=all")
	if cfg.StreamBuf > 0 {
		cmd.Env = append(cmd.Env, "RCPROXY_VERIF_STREAMBUF="+strconv.Itoa(cfg.StreamBuf))
	}
	cmd.SysProcAttr = &syscall.SysProcAttr{Pdeathsig: syscall.SIGKILL}
	if err := cmd.Start(); err != nil {
		of.Close()
		return nil, err
	}
	of.Close()
	p.cmd = cmd
	go func() {
		err := cmd.Wait()
		p.mu.Lock()
		p.exited = true
		p.exitErr = err
		p.mu.Unlock()
		close(p.done)
	}()
	go p.rssWatch()
	return p, nil
}

func (p *Proxy) rssWatch() {
	for {
		select {
		case <-p.done:
			return
		case <-time.After(250 * time.Millisecond):
		}
		b, err := os.ReadFile(fmt.Sprintf("/proc/%d/status", p.cmd.Process.Pid))
		if err != nil {
			continue
		}
		for _, line := range strings.Split(string(b), "\n") {
			if strings.HasPrefix(line, "VmRSS:") {
				f := strings.Fields(line)
				if len(f) >= 2 {
					kb, _ := strconv.ParseInt(f[1], 10, 64)
					p.mu.Lock()
					if kb > p.MaxRSS {
						p.MaxRSS = kb
					}
					p.mu.Unlock()
					if kb > 8*1024*1024 { // 8 GB watchdog
						p.cmd.Process.Kill()
					}
				}
			}
		}
	}
}

func (p *Proxy) Alive() bool {
	p.mu.Lock()
	defer p.mu.Unlock()
	return !p.exited
}

func (p *Proxy) RSSKB() int64 {
	p.mu.Lock()
	defer p.mu.Unlock()
	return p.MaxRSS
}

// OutputTail returns the last n bytes of the proxy's stdout/stderr.
func (p *Proxy) OutputTail(n int) string {
	b, err := os.ReadFile(p.outPath)
	if err != nil {
		return ""
	}
	if len(b) > n {
		b = b[len(b)-n:]
	}
	return string(b)
}

// DeathReport describes how a dead proxy ended: exit status, output tail and the
// tail of its newest log file.
func (p *Proxy) DeathReport() string {
	p.mu.Lock()
	ee := p.exitErr
	p.mu.Unlock()
	rep := fmt.Sprintf("exit=%v output=%q", ee, p.OutputTail(1500))
	if files, _ := filepath.Glob(filepath.Join(p.Dir, "log", "*")); len(files) > 0 {
		var newest string
		var nt time.Time
		for _, f := range files {
			if st, err := os.Stat(f); err == nil && !st.IsDir() && st.ModTime().After(nt) {
				newest, nt = f, st.ModTime()
			}
		}
		if b, err := os.ReadFile(newest); err == nil {
			if len(b) > 1500 {
				b = b[len(b)-1500:]
			}
			rep += fmt.Sprintf(" log(%s)=%q", filepath.Base(newest), string(b))
		}
	}
	return rep
}

// PanicLine extracts the first "panic:" or "fatal error:" line of the output.
func (p *Proxy) PanicLine() string {
	b, _ := os.ReadFile(p.outPath)
	for _, line := range bytes.Split(b, []byte("\n")) {
		if bytes.HasPrefix(line, []byte("panic:")) || bytes.HasPrefix(line, []byte("fatal error:")) || bytes.Contains(line, []byte("ERROR: AddressSanitizer")) {
			return string(line)
		}
	}
	return ""
}

// RaceReports counts "WARNING: DATA RACE" blocks in the output.
func (p *Proxy) RaceReports() int {
	b, _ := os.ReadFile(p.outPath)
	return bytes.Count(b, []byte("WARNING: DATA RACE"))
}

func (p *Proxy) Stop() {
	if p.cmd == nil || p.cmd.Process == nil {
		return
	}
	p.cmd.Process.Kill()
	select {
	case <-p.done:
	case <-time.After(5 * time.Second):
	}
}

// WaitReady waits until a probe request for probeKey gets a reply that is not
// the proxy's "slot not loaded yet" error (i.e. the first topology was
// adopted). It returns an error when the proxy dies or the watchdog expires.
func (p *Proxy) WaitReady(watchdog time.Duration) error {
	deadline := time.Now().Add(watchdog)
	for time.Now().Before(deadline) {
		if !p.Alive() {
			return fmt.Errorf("proxy exited during start: %s", p.DeathReport())
		}
		c, err := DialClient(p.Addr, "", 0)
		if err != nil {
			time.Sleep(100 * time.Millisecond)
			continue
		}
		c.Send(Req("GET", "__ready__"))
		ok := c.WaitReplies(1, 1500*time.Millisecond)
		s := c.Snapshot()
		c.Close()
		if ok && !(s.Replies[0].Val.Kind == '-' && (strings.Contains(string(s.Replies[0].Val.Str), "unknown slot") ||
			strings.Contains(string(s.Replies[0].Val.Str), "proxy pool"))) {
			return nil
		}
		time.Sleep(150 * time.Millisecond)
	}
	return &NotReadyError{Msg: fmt.Sprintf("proxy alive but not serving within %v: %s", watchdog, p.OutputTail(1500))}
}

// NotReadyError: the proxy process is alive but never started to route requests
// (no topology adopted / backend handshakes never completed) within the watchdog.
type NotReadyError struct{ Msg string }

func (e *NotReadyError) Error() string { return e.Msg }
