package lib

// Reference RESP2 encoder / decoders, independent of rcproxy code.

import (
	"bytes"
	"errors"
	"fmt"
	"strconv"
)

var (
	ErrIncomplete = errors.New("incomplete")
)

// ProtoErr is a protocol violation found by a strict parser.
type ProtoErr struct{ Msg string }

func (e *ProtoErr) Error() string { return "protocol error: " + e.Msg }

// EncodeReq encodes a request as a canonical RESP array of bulk strings.
func EncodeReq(args ...[]byte) []byte {
	var b bytes.Buffer
	b.WriteByte('*')
	b.WriteString(strconv.Itoa(len(args)))
	b.WriteString("\r\n")
	for _, a := range args {
		b.WriteByte('$')
		b.WriteString(strconv.Itoa(len(a)))
		b.WriteString("\r\n")
		b.Write(a)
		b.WriteString("\r\n")
	}
	return b.Bytes()
}

// Req is EncodeReq over strings.
func Req(args ...string) []byte {
	bs := make([][]byte, len(args))
	for i, a := range args {
		bs[i] = []byte(a)
	}
	return EncodeReq(bs...)
}

// Val is a parsed RESP2 reply value.
type Val struct {
	Kind byte // '+', '-', ':', '$', '*'
	Str  []byte
	Null bool
	Arr  []Val
	Raw  []byte
}

func (v Val) IsErr() bool { return v.Kind == '-' }

func (v Val) String() string {
	switch v.Kind {
	case '+', '-', ':':
		return string(v.Kind) + string(v.Str)
	case '$':
		if v.Null {
			return "$nil"
		}
		if len(v.Str) > 64 {
			return fmt.Sprintf("$%q...(%d)", v.Str[:64], len(v.Str))
		}
		return fmt.Sprintf("$%q", v.Str)
	case '*':
		if v.Null {
			return "*nil"
		}
		s := "["
		for i, e := range v.Arr {
			if i > 0 {
				s += " "
			}
			if i >= 8 {
				s += fmt.Sprintf("...(%d)", len(v.Arr))
				break
			}
			s += e.String()
		}
		return s + "]"
	}
	return "?"
}

func canonInt(b []byte) (int64, bool) {
	// canonical decimal: optional '-', no leading zeros, no '+', not empty, not "-0"
	if len(b) == 0 || len(b) > 20 {
		return 0, false
	}
	s := b
	neg := false
	if s[0] == '-' {
		neg = true
		s = s[1:]
		if len(s) == 0 {
			return 0, false
		}
	}
	if s[0] == '0' && (len(s) > 1 || neg) {
		return 0, false
	}
	for _, c := range s {
		if c < '0' || c > '9' {
			return 0, false
		}
	}
	n, err := strconv.ParseInt(string(b), 10, 64)
	if err != nil {
		return 0, false
	}
	return n, true
}

// readLine returns the line without CRLF and the number of bytes consumed.
// A lone LF or a CR not followed by LF is a protocol error.
func readLineStrict(b []byte) ([]byte, int, error) {
	i := bytes.IndexByte(b, '\n')
	if i < 0 {
		// a CR in the middle followed by non-LF would be an error only once
		// we see the following byte
		for j := 0; j+1 < len(b); j++ {
			if b[j] == '\r' && b[j+1] != '\n' {
				return nil, 0, &ProtoErr{"CR not followed by LF"}
			}
		}
		return nil, 0, ErrIncomplete
	}
	if i == 0 || b[i-1] != '\r' {
		return nil, 0, &ProtoErr{"LF without CR"}
	}
	line := b[:i-1]
	if bytes.IndexByte(line, '\r') >= 0 {
		return nil, 0, &ProtoErr{"CR inside line"}
	}
	return line, i + 1, nil
}

// ParseReply strictly parses one RESP2 value from b.
func ParseReply(b []byte) (Val, int, error) {
	v, n, err := parseReply(b, 0)
	if err == nil {
		v.Raw = b[:n]
	}
	return v, n, err
}

func parseReply(b []byte, depth int) (Val, int, error) {
	if len(b) == 0 {
		return Val{}, 0, ErrIncomplete
	}
	if depth > 64 {
		return Val{}, 0, &ProtoErr{"nesting too deep"}
	}
	switch b[0] {
	case '+', '-', ':', '$', '*':
	default:
		return Val{}, 0, &ProtoErr{fmt.Sprintf("bad type byte %q", b[0])}
	}
	line, n, err := readLineStrict(b)
	if err != nil {
		return Val{}, 0, err
	}
	v := Val{Kind: b[0]}
	body := line[1:]
	switch b[0] {
	case '+', '-':
		v.Str = append([]byte(nil), body...)
		return v, n, nil
	case ':':
		if _, ok := canonInt(body); !ok {
			return Val{}, 0, &ProtoErr{fmt.Sprintf("bad integer %q", body)}
		}
		v.Str = append([]byte(nil), body...)
		return v, n, nil
	case '$':
		l, ok := canonInt(body)
		if !ok || l < -1 {
			return Val{}, 0, &ProtoErr{fmt.Sprintf("bad bulk length %q", body)}
		}
		if l == -1 {
			v.Null = true
			return v, n, nil
		}
		if int64(len(b)-n) < l+2 {
			return Val{}, 0, ErrIncomplete
		}
		v.Str = append([]byte(nil), b[n:n+int(l)]...)
		if b[n+int(l)] != '\r' || b[n+int(l)+1] != '\n' {
			return Val{}, 0, &ProtoErr{"bulk not terminated by CRLF"}
		}
		return v, n + int(l) + 2, nil
	case '*':
		l, ok := canonInt(body)
		if !ok || l < -1 {
			return Val{}, 0, &ProtoErr{fmt.Sprintf("bad array length %q", body)}
		}
		if l == -1 {
			v.Null = true
			return v, n, nil
		}
		v.Arr = make([]Val, 0, minInt(int(l), 1024))
		off := n
		for i := int64(0); i < l; i++ {
			e, m, err := parseReply(b[off:], depth+1)
			if err != nil {
				return Val{}, 0, err
			}
			e.Raw = b[off : off+m]
			v.Arr = append(v.Arr, e)
			off += m
		}
		return v, off, nil
	}
	return Val{}, 0, &ProtoErr{"unreachable"}
}

func minInt(a, b int) int {
	if a < b {
		return a
	}
	return b
}

// ParseRequestAsRedis parses one request the way a Redis server's
// multibulk parser accepts or rejects it. It returns the args and the bytes
// consumed; ErrIncomplete when more bytes are needed; *ProtoErr for anything
// a Redis server answers with "-ERR Protocol error" (non-canonical or
// out-of-range count/length, missing '$'), plus - stricter than Redis, and
// recorded with Msg prefix "lenient:" so callers can tell - things a Redis
// server would tolerate but a well-formed client never sends (header or
// payload not terminated by CRLF, inline command, empty command).
func ParseRequestAsRedis(b []byte) (args [][]byte, n int, err error) {
	if len(b) == 0 {
		return nil, 0, ErrIncomplete
	}
	if b[0] != '*' {
		// inline command: consume a line
		i := bytes.IndexByte(b, '\n')
		if i < 0 {
			if len(b) > 64*1024 {
				return nil, 0, &ProtoErr{"too big inline request"}
			}
			return nil, 0, ErrIncomplete
		}
		return nil, i + 1, &ProtoErr{"lenient: inline command " + strconv.Quote(string(b[:minInt(i, 40)]))}
	}
	line, off, err := readLineRedis(b)
	if err != nil {
		return nil, 0, err
	}
	cnt, ok := canonInt(line[1:])
	if !ok || cnt > 1024*1024 {
		return nil, 0, &ProtoErr{fmt.Sprintf("invalid multibulk length %q", line[1:])}
	}
	if cnt <= 0 {
		return nil, off, &ProtoErr{fmt.Sprintf("lenient: empty command *%d", cnt)}
	}
	args = make([][]byte, 0, minInt(int(cnt), 4096))
	for i := int64(0); i < cnt; i++ {
		if off >= len(b) {
			return nil, 0, ErrIncomplete
		}
		if b[off] != '$' {
			return nil, 0, &ProtoErr{fmt.Sprintf("expected '$', got %q", b[off])}
		}
		line, m, err := readLineRedis(b[off:])
		if err != nil {
			return nil, 0, err
		}
		l, ok := canonInt(line[1:])
		if !ok || l < 0 || l > 512*1024*1024 {
			return nil, 0, &ProtoErr{fmt.Sprintf("invalid bulk length %q", line[1:])}
		}
		off += m
		if int64(len(b)-off) < l+2 {
			return nil, 0, ErrIncomplete
		}
		args = append(args, b[off:off+int(l)])
		if b[off+int(l)] != '\r' || b[off+int(l)+1] != '\n' {
			return nil, 0, &ProtoErr{"lenient: bulk payload not terminated by CRLF"}
		}
		off += int(l) + 2
	}
	return args, off, nil
}

func readLineRedis(b []byte) ([]byte, int, error) {
	i := bytes.IndexByte(b, '\r')
	if i < 0 {
		if len(b) > 64*1024 {
			return nil, 0, &ProtoErr{"too big count/length line"}
		}
		return nil, 0, ErrIncomplete
	}
	if i+1 >= len(b) {
		return nil, 0, ErrIncomplete
	}
	if b[i+1] != '\n' {
		return nil, 0, &ProtoErr{"lenient: CR not followed by LF in header"}
	}
	return b[:i], i + 2, nil
}

// Reply encoders.
func BulkReply(b []byte) []byte {
	return append(append([]byte("$"+strconv.Itoa(len(b))+"\r\n"), b...), '\r', '\n')
}
func NullBulk() []byte        { return []byte("$-1\r\n") }
func IntReply(n int64) []byte { return []byte(":" + strconv.FormatInt(n, 10) + "\r\n") }
func StatusReply(s string) []byte {
	return []byte("+" + s + "\r\n")
}
func ErrReply(s string) []byte { return []byte("-" + s + "\r\n") }
func ArrayReply(elems ...[]byte) []byte {
	out := []byte("*" + strconv.Itoa(len(elems)) + "\r\n")
	for _, e := range elems {
		out = append(out, e...)
	}
	return out
}
