package lib

// Scriptable fake Redis Cluster: real TCP listeners on 127.0.0.1, strict
// request parsing, per-connection command logs stamped with a global logical
// clock, and a behaviour script (Handler) deciding the reply of every data
// command. Written from the Redis protocol / cluster specification; it never
// imports rcproxy code.

import (
	"bytes"
	"fmt"
	"net"
	"strings"
	"sync"
	"sync/atomic"
	"time"
)

var clock int64

// Tick advances and returns the global logical clock.
func Tick() int64 { return atomic.AddInt64(&clock, 1) }

// Gate holds back a backend reply until the test opens it.
type Gate struct {
	ch   chan struct{}
	once sync.Once
}

func NewGate() *Gate  { return &Gate{ch: make(chan struct{})} }
func (g *Gate) Open() { g.once.Do(func() { close(g.ch) }) }
func (g *Gate) IsOpen() bool {
	select {
	case <-g.ch:
		return true
	default:
		return false
	}
}

// BReq is one request as received by a fake node.
type BReq struct {
	Node    *Node
	Conn    *BConn
	Seq     int // index on its connection (all commands counted)
	Args    [][]byte
	Raw     []byte
	Clock   int64
	Asking  bool // previous command on this connection was ASKING
	Cmd     string
	ReplyAt int64 // logical clock when the reply write completed (0 = not yet)
	Reply   []byte
	mu      sync.Mutex
}

func (r *BReq) Arg(i int) string {
	if i < len(r.Args) {
		return string(r.Args[i])
	}
	return ""
}

func (r *BReq) Replied() int64 {
	r.mu.Lock()
	defer r.mu.Unlock()
	return r.ReplyAt
}

// Action is what a fake node does with a request.
type Action struct {
	hold             bool // handshake reply to be merged with the next reply
	MergeNext        bool // hold this reply back and write it together with the next reply of the connection in one write
	Reply            []byte
	Gate             *Gate         // wait for it before writing the reply
	Chunks           []int         // write the reply in pieces of these sizes (rest in one)
	ChunkPause       time.Duration // pause between pieces
	NoReply          bool          // never answer (connection keeps reading)
	CloseBeforeReply bool          // close the connection instead of answering
	CloseAfterBytes  int           // >0: write that many reply bytes, then close
	Delay            time.Duration // sleep before writing
}

// Handler decides the reply of a data command. Handshake and admin commands
// (AUTH, READONLY, ASKING, PING, INFO, CLUSTER) are answered by the node
// itself unless Cluster.RawHandler intercepts them.
type Handler func(r *BReq) Action

// BConn is one accepted backend connection.
type BConn struct {
	Node     *Node
	ID       int
	c        net.Conn
	Reqs     []*BReq
	mu       sync.Mutex
	closed   bool
	Authed   bool
	ReadOnly bool
	asking   bool
	acts     chan pending
	ProtoErr string
	AcceptAt int64
}

type pending struct {
	r *BReq
	a Action
}

func (bc *BConn) Lock()   { bc.mu.Lock() }
func (bc *BConn) Unlock() { bc.mu.Unlock() }

func (bc *BConn) Close() {
	bc.mu.Lock()
	if !bc.closed {
		bc.closed = true
		bc.c.Close()
	}
	bc.mu.Unlock()
}

func (bc *BConn) Closed() bool {
	bc.mu.Lock()
	defer bc.mu.Unlock()
	return bc.closed
}

// Requests returns a snapshot of the requests received on this connection.
func (bc *BConn) Requests() []*BReq {
	bc.mu.Lock()
	defer bc.mu.Unlock()
	return append([]*BReq(nil), bc.Reqs...)
}

// Node is one fake Redis node.
type Node struct {
	Cluster *Cluster
	Index   int
	ID      string // 40 hex chars
	Addr    string // 127.0.0.1:port
	Port    int

	ln          net.Listener
	mu          sync.Mutex
	conns       []*BConn
	down        bool
	acceptClose bool
	pauseRead   bool
	pauseCond   *sync.Cond
	slowBytes   int           // >0: read at most this many bytes per read() ...
	slowSleep   time.Duration // ... and sleep this long after each

	// INFO behaviour
	Loading        bool
	MasterLinkDown bool
	IsReplica      bool
	InfoDelay      time.Duration
}

// Cluster is a set of fake nodes sharing a handler, a password and a
// CLUSTER NODES generator.
type Cluster struct {
	Nodes    []*Node
	Password string
	// HandshakeMode: "" normal; "split": AUTH/READONLY replies are written
	// byte by byte; "merge": they are held back and written together with the
	// next reply in one write.
	HandshakeMode string

	mu           sync.Mutex
	handler      Handler
	nodesReply   func(n *Node) []byte // full RESP reply to CLUSTER NODES
	malformed    []Malformed
	log          []*BReq
	protoStrict  bool
	killProbes   int // close the connection instead of answering the next n CLUSTER NODES requests
	probesServed int // CLUSTER NODES requests answered with the current generator
	probeDelays  []time.Duration // the next CLUSTER NODES replies (computed on arrival) are written this late
}

// DelayProbes makes the nodes write the next len(d) CLUSTER NODES replies late, the
// i-th of them by d[i] (the text is the one in force when the request arrived).
func (cl *Cluster) DelayProbes(d ...time.Duration) {
	cl.mu.Lock()
	cl.probeDelays = append([]time.Duration(nil), d...)
	cl.mu.Unlock()
}

// ProbesServed returns how many CLUSTER NODES requests were answered since the
// current reply generator was installed.
func (cl *Cluster) ProbesServed() int {
	cl.mu.Lock()
	defer cl.mu.Unlock()
	return cl.probesServed
}

// KillProbeConns makes the nodes drop the connection, without answering, on the
// next n CLUSTER NODES requests.
func (cl *Cluster) KillProbeConns(n int) {
	cl.mu.Lock()
	cl.killProbes = n
	cl.mu.Unlock()
}

// Malformed records a request a Redis server would have rejected or that a
// well-formed client never sends.
type Malformed struct {
	Node    int
	Conn    int
	Err     string
	Context []byte
	Lenient bool
}

func NewCluster(n int, password string) (*Cluster, error) {
	cl := &Cluster{Password: password}
	cl.handler = DefaultHandler
	for i := 0; i < n; i++ {
		if _, err := cl.AddNode(); err != nil {
			cl.Close()
			return nil, err
		}
	}
	return cl, nil
}

// AddNode starts one more listener.
func (cl *Cluster) AddNode() (*Node, error) {
	ln, err := net.Listen("tcp4", "127.0.0.1:0")
	if err != nil {
		return nil, err
	}
	cl.mu.Lock()
	idx := len(cl.Nodes)
	nd := &Node{Cluster: cl, Index: idx, ln: ln}
	nd.Port = ln.Addr().(*net.TCPAddr).Port
	nd.Addr = fmt.Sprintf("%s:%d", FakeHost, nd.Port)
	nd.ID = fmt.Sprintf("%040x", 0xabc000+idx)
	cl.Nodes = append(cl.Nodes, nd)
	cl.mu.Unlock()
	go nd.acceptLoop(ln)
	return nd, nil
}

func (cl *Cluster) Close() {
	cl.mu.Lock()
	nodes := append([]*Node(nil), cl.Nodes...)
	cl.mu.Unlock()
	for _, n := range nodes {
		n.SetDown(true)
	}
}

func (cl *Cluster) SetHandler(h Handler) {
	cl.mu.Lock()
	cl.handler = h
	cl.mu.Unlock()
}

func (cl *Cluster) getHandler() Handler {
	cl.mu.Lock()
	defer cl.mu.Unlock()
	return cl.handler
}

// SetNodesReply installs the generator of the CLUSTER NODES reply.
func (cl *Cluster) SetNodesReply(f func(n *Node) []byte) {
	cl.mu.Lock()
	cl.nodesReply = f
	cl.probesServed = 0
	cl.mu.Unlock()
}

func (cl *Cluster) MalformedSeen() []Malformed {
	cl.mu.Lock()
	defer cl.mu.Unlock()
	return append([]Malformed(nil), cl.malformed...)
}

// Log returns all data requests seen so far, in arrival (clock) order.
func (cl *Cluster) Log() []*BReq {
	cl.mu.Lock()
	defer cl.mu.Unlock()
	return append([]*BReq(nil), cl.log...)
}

func (cl *Cluster) LogLen() int {
	cl.mu.Lock()
	defer cl.mu.Unlock()
	return len(cl.log)
}

// ResetLog forgets recorded data requests (connections stay).
func (cl *Cluster) ResetLog() {
	cl.mu.Lock()
	cl.log = nil
	cl.mu.Unlock()
}

// ForgetRequests drops the per-connection request records of every node (and the
// records of closed connections altogether) in addition to the cluster-wide log, so
// that long workloads that judge episode by episode do not accumulate every byte
// ever sent. Connection IDs stay unique because they are never reused.
func (cl *Cluster) ForgetRequests() {
	cl.ResetLog()
	for _, n := range cl.Nodes {
		n.mu.Lock()
		for _, bc := range n.conns {
			bc.mu.Lock()
			bc.Reqs = nil
			bc.mu.Unlock()
		}
		n.mu.Unlock()
	}
}

// FakeHost is the host part under which new nodes are named in CLUSTER NODES, in
// redirects and in the proxy configuration (they always listen on 127.0.0.1).
var FakeHost = "127.0.0.1"

func (cl *Cluster) NodeByAddr(addr string) *Node {
	cl.mu.Lock()
	defer cl.mu.Unlock()
	for _, n := range cl.Nodes {
		if n.Addr == addr {
			return n
		}
	}
	return nil
}

// SetDown closes the listener and every connection (true) or re-opens the
// listener on the same port (false).
func (n *Node) SetDown(down bool) error {
	n.mu.Lock()
	defer n.mu.Unlock()
	if down {
		if n.down {
			return nil
		}
		n.down = true
		n.ln.Close()
		for _, c := range n.conns {
			c.Close()
		}
		return nil
	}
	if !n.down {
		return nil
	}
	var ln net.Listener
	var err error
	for i := 0; i < 50; i++ {
		ln, err = net.Listen("tcp4", n.Addr)
		if err == nil {
			break
		}
		time.Sleep(20 * time.Millisecond)
	}
	if err != nil {
		return err
	}
	n.ln = ln
	n.down = false
	go n.acceptLoop(ln)
	return nil
}

// KillConns closes all current connections but keeps listening.
func (n *Node) KillConns() {
	n.mu.Lock()
	cs := append([]*BConn(nil), n.conns...)
	n.mu.Unlock()
	for _, c := range cs {
		c.Close()
	}
}

// SetAcceptClose makes the node close every new connection right after accept.
func (n *Node) SetAcceptClose(v bool) {
	n.mu.Lock()
	n.acceptClose = v
	n.mu.Unlock()
}

// SetPauseRead makes every connection of the node stop calling read() (the
// kernel buffers fill up: backpressure towards the proxy) until resumed.
func (n *Node) SetPauseRead(v bool) {
	n.mu.Lock()
	if n.pauseCond == nil {
		n.pauseCond = sync.NewCond(&n.mu)
	}
	n.pauseRead = v
	n.pauseCond.Broadcast()
	n.mu.Unlock()
}

// SetSlowRead makes the node drain its sockets slowly (bytes per read, sleep
// after each read); bytes <= 0 restores normal reading.
func (n *Node) SetSlowRead(bytes int, sleep time.Duration) {
	n.mu.Lock()
	n.slowBytes, n.slowSleep = bytes, sleep
	n.mu.Unlock()
}

func (n *Node) slowRead() (int, time.Duration) {
	n.mu.Lock()
	defer n.mu.Unlock()
	return n.slowBytes, n.slowSleep
}

func (n *Node) waitUnpaused() {
	n.mu.Lock()
	if n.pauseCond == nil {
		n.pauseCond = sync.NewCond(&n.mu)
	}
	for n.pauseRead && !n.down {
		n.pauseCond.Wait()
	}
	n.mu.Unlock()
}

func (n *Node) Conns() []*BConn {
	n.mu.Lock()
	defer n.mu.Unlock()
	return append([]*BConn(nil), n.conns...)
}

func (n *Node) acceptLoop(ln net.Listener) {
	for {
		c, err := ln.Accept()
		if err != nil {
			return
		}
		if tc, ok := c.(*net.TCPConn); ok {
			tc.SetNoDelay(true)
		}
		n.mu.Lock()
		if n.down || n.acceptClose {
			n.mu.Unlock()
			c.Close()
			continue
		}
		bc := &BConn{Node: n, ID: len(n.conns), c: c, acts: make(chan pending, 1<<16), AcceptAt: Tick()}
		n.conns = append(n.conns, bc)
		n.mu.Unlock()
		go bc.readLoop()
		go bc.writeLoop()
	}
}

func (bc *BConn) readLoop() {
	defer close(bc.acts)
	buf := make([]byte, 0, 64*1024)
	tmp := make([]byte, 256*1024)
	cl := bc.Node.Cluster
	for {
		bc.Node.waitUnpaused()
		rb := tmp
		sb, ss := bc.Node.slowRead()
		if sb > 0 && sb < len(rb) {
			rb = tmp[:sb]
		}
		n, err := bc.c.Read(rb)
		if sb > 0 && ss > 0 {
			time.Sleep(ss)
		}
		if n > 0 {
			buf = append(buf, tmp[:n]...)
			for {
				args, used, perr := ParseRequestAsRedis(buf)
				if perr == ErrIncomplete {
					break
				}
				if perr != nil {
					pe := perr.(*ProtoErr)
					lenient := strings.HasPrefix(pe.Msg, "lenient:")
					cl.mu.Lock()
					cl.malformed = append(cl.malformed, Malformed{Node: bc.Node.Index, Conn: bc.ID, Err: pe.Msg,
						Context: append([]byte(nil), buf[:minInt(len(buf), 200)]...), Lenient: lenient})
					cl.mu.Unlock()
					bc.mu.Lock()
					bc.ProtoErr = pe.Msg
					bc.mu.Unlock()
					// like Redis: answer a protocol error and close
					bc.c.Write([]byte("-ERR Protocol error: " + pe.Msg + "\r\n"))
					bc.Close()
					return
				}
				raw := append([]byte(nil), buf[:used]...)
				// re-slice args into raw so they survive buffer reuse
				a2 := make([][]byte, len(args))
				for i, a := range args {
					off := cap(buf) - cap(a) // offset of a within buf's backing array
					_ = off
					a2[i] = append([]byte(nil), a...)
				}
				buf = buf[used:]
				bc.dispatch(a2, raw)
			}
			if len(buf) == 0 && cap(buf) > 1<<20 {
				buf = make([]byte, 0, 64*1024)
			}
		}
		if err != nil {
			bc.Close()
			return
		}
	}
}

func (bc *BConn) dispatch(args [][]byte, raw []byte) {
	cl := bc.Node.Cluster
	cmd := strings.ToLower(string(args[0]))
	bc.mu.Lock()
	r := &BReq{Node: bc.Node, Conn: bc, Seq: len(bc.Reqs), Args: args, Raw: raw, Clock: Tick(), Cmd: cmd, Asking: bc.asking}
	bc.asking = false
	bc.Reqs = append(bc.Reqs, r)
	bc.mu.Unlock()

	var a Action
	needAuth := cl.Password != "" && !bc.Authed
	switch {
	case cmd == "auth":
		if cl.Password == "" {
			a.Reply = ErrReply("ERR Client sent AUTH, but no password is set")
		} else if len(args) == 2 && string(args[1]) == cl.Password {
			bc.mu.Lock()
			bc.Authed = true
			bc.mu.Unlock()
			a.Reply = StatusReply("OK")
			cl.handshakeStyle(&a)
		} else {
			a.Reply = ErrReply("ERR invalid password")
		}
	case needAuth:
		a.Reply = ErrReply("NOAUTH Authentication required.")
	case cmd == "readonly":
		bc.mu.Lock()
		bc.ReadOnly = true
		bc.mu.Unlock()
		a.Reply = StatusReply("OK")
		cl.handshakeStyle(&a)
	case cmd == "readwrite":
		bc.mu.Lock()
		bc.ReadOnly = false
		bc.mu.Unlock()
		a.Reply = StatusReply("OK")
	case cmd == "asking":
		bc.mu.Lock()
		bc.asking = true
		bc.mu.Unlock()
		a.Reply = StatusReply("OK")
	case cmd == "ping" && len(args) == 1:
		a.Reply = StatusReply("PONG")
	case cmd == "info":
		a.Reply = BulkReply([]byte(bc.Node.infoText()))
		a.Delay = bc.Node.InfoDelay
	case cmd == "cluster" && len(args) >= 2 && strings.ToLower(string(args[1])) == "nodes":
		cl.mu.Lock()
		f := cl.nodesReply
		kill := cl.killProbes > 0
		if kill {
			cl.killProbes--
		}
		cl.mu.Unlock()
		if kill {
			a.CloseBeforeReply = true
			break
		}
		if f != nil {
			a.Reply = f(bc.Node)
			cl.mu.Lock()
			if cl.nodesReply != nil {
				cl.probesServed++
			}
			if len(cl.probeDelays) > 0 {
				a.Delay = cl.probeDelays[0]
				cl.probeDelays = cl.probeDelays[1:]
			}
			cl.mu.Unlock()
		} else {
			a.Reply = ErrReply("ERR This instance has cluster support disabled")
		}
	default:
		cl.mu.Lock()
		cl.log = append(cl.log, r)
		h := cl.handler
		cl.mu.Unlock()
		a = h(r)
	}
	bc.acts <- pending{r, a}
}

func (cl *Cluster) handshakeStyle(a *Action) {
	switch cl.HandshakeMode {
	case "split":
		a.Chunks = []int{1, 1, 1, 1}
		a.ChunkPause = 200 * time.Microsecond
	case "merge":
		a.hold = true
	}
}

func (n *Node) infoText() string {
	var sb strings.Builder
	sb.WriteString("# Server\r\nredis_version:6.2.6\r\nredis_mode:cluster\r\n# Persistence\r\n")
	if n.Loading {
		sb.WriteString("loading:1\r\n")
	} else {
		sb.WriteString("loading:0\r\n")
	}
	sb.WriteString("# Replication\r\n")
	if n.IsReplica {
		sb.WriteString("role:slave\r\n")
		if n.MasterLinkDown {
			sb.WriteString("master_link_status:down\r\n")
		} else {
			sb.WriteString("master_link_status:up\r\n")
		}
	} else {
		sb.WriteString("role:master\r\nconnected_slaves:0\r\n")
	}
	return sb.String()
}

func (bc *BConn) writeLoop() {
	var held []byte
	var next *pending
	for {
		var p pending
		if next != nil {
			p, next = *next, nil
		} else {
			var ok bool
			if p, ok = <-bc.acts; !ok {
				return
			}
		}
		a := p.a
		if a.hold || a.MergeNext {
			held = append(held, a.Reply...)
			p.r.mu.Lock()
			p.r.Reply = a.Reply
			p.r.ReplyAt = Tick()
			p.r.mu.Unlock()
			// wait briefly for a pipelined follower to merge with; a client that
			// waits for the handshake reply before sending more gets it alone
			select {
			case p2, ok := <-bc.acts:
				if !ok {
					bc.c.Write(held)
					return
				}
				next = &p2
			case <-time.After(30 * time.Millisecond):
				bc.c.Write(held)
				held = nil
			}
			continue
		}
		if len(held) > 0 {
			a.Reply = append(held, a.Reply...)
			held = nil
		}
		if a.Gate != nil {
			<-a.Gate.ch
		}
		if a.Delay > 0 {
			time.Sleep(a.Delay)
		}
		if a.NoReply {
			continue
		}
		if a.CloseBeforeReply {
			bc.Close()
			continue
		}
		reply := a.Reply
		if a.CloseAfterBytes > 0 && a.CloseAfterBytes < len(reply) {
			bc.c.Write(reply[:a.CloseAfterBytes])
			bc.Close()
			continue
		}
		var err error
		off := 0
		for _, sz := range a.Chunks {
			if sz <= 0 || off+sz >= len(reply) {
				break
			}
			if _, err = bc.c.Write(reply[off : off+sz]); err != nil {
				break
			}
			off += sz
			if a.ChunkPause > 0 {
				time.Sleep(a.ChunkPause)
			}
		}
		if err == nil {
			_, err = bc.c.Write(reply[off:])
		}
		p.r.mu.Lock()
		p.r.Reply = reply
		p.r.ReplyAt = Tick()
		p.r.mu.Unlock()
	}
}

// DefaultHandler answers every data command with a reply that identifies the
// node, connection and arrival index, so a client can tell which backend event
// produced what it received.
func DefaultHandler(r *BReq) Action {
	switch r.Cmd {
	case "mget":
		el := make([][]byte, 0, len(r.Args)-1)
		for _, k := range r.Args[1:] {
			el = append(el, BulkReply([]byte(fmt.Sprintf("v|%d|%s", r.Node.Index, k))))
		}
		return Action{Reply: ArrayReply(el...)}
	case "mset":
		return Action{Reply: StatusReply("OK")}
	case "del":
		return Action{Reply: IntReply(int64(len(r.Args) - 1))}
	}
	return Action{Reply: BulkReply([]byte(fmt.Sprintf("r|%d|%d|%d|%s|%s", r.Node.Index, r.Conn.ID, r.Seq, r.Cmd, r.Arg(1))))}
}

// ---------------------------------------------------------------------------
// Topology and CLUSTER NODES text

type TNode struct {
	Node     *Node
	ID       string
	Addr     string // ip:port as it should appear (without @cport)
	Master   bool
	MasterID string
	Slots    [][2]int
	Flags    string // extra flags appended, e.g. "fail", "handshake", "noaddr", "fail?"
	Link     string // "connected" (default) or "disconnected"
	CPort    bool   // append @cport to the address
	Extra    []string
	Cols7    bool // emit a 7-column (truncated) line
}

type Topo struct {
	Nodes []*TNode
	// Order, when set, is the order in which the lines are printed (indexes
	// into Nodes); real nodes print in dictionary order of ids, so replicas
	// routinely come before their masters.
	Order []int
	// PadTo, when > 0, pads the text to exactly this many bytes with lines of failed
	// masters without slots that were never forgotten (what a long-lived cluster's
	// output looks like); they describe nothing a proxy may use.
	PadTo int
}

// Text renders the CLUSTER NODES output as seen by node self (may be nil).
func (t *Topo) Text(self *Node) string {
	var sb strings.Builder
	nodes := t.Nodes
	if len(t.Order) == len(t.Nodes) {
		nodes = make([]*TNode, 0, len(t.Nodes))
		for _, i := range t.Order {
			nodes = append(nodes, t.Nodes[i])
		}
	}
	for _, tn := range nodes {
		flags := ""
		if self != nil && tn.Node == self {
			flags = "myself,"
		}
		if tn.Master {
			flags += "master"
		} else {
			flags += "slave"
		}
		if tn.Flags != "" {
			flags += "," + tn.Flags
		}
		addr := tn.Addr
		if tn.CPort && addr != "" {
			addr += "@1" + addr[strings.LastIndexByte(addr, ':')+1:]
		}
		mid := "-"
		if !tn.Master {
			mid = tn.MasterID
		}
		link := tn.Link
		if link == "" {
			link = "connected"
		}
		if tn.Cols7 {
			fmt.Fprintf(&sb, "%s %s %s %s 0 1426238317239 4\n", tn.ID, addr, flags, mid)
			continue
		}
		fmt.Fprintf(&sb, "%s %s %s %s 0 1426238317239 4 %s", tn.ID, addr, flags, mid, link)
		if tn.Master {
			for _, s := range tn.Slots {
				if s[0] == s[1] {
					fmt.Fprintf(&sb, " %d", s[0])
				} else {
					fmt.Fprintf(&sb, " %d-%d", s[0], s[1])
				}
			}
			for _, e := range tn.Extra {
				sb.WriteString(" " + e)
			}
		}
		sb.WriteByte('\n')
	}
	if t.PadTo > sb.Len() {
		line := func(i, idLen int) string {
			id := fmt.Sprintf("%040x", 0xfa11ed0000+i)
			for len(id) < idLen {
				id += "0"
			}
			return fmt.Sprintf("%s 10.99.9.9:7000@17000 master,fail - 1426238316232 1426238316232 7 disconnected\n", id)
		}
		std := len(line(100000, 40))
		rem := t.PadTo - sb.Len()
		if rem < std {
			sb.WriteString(strings.Repeat(" ", rem-1) + "\n") // fewer than 8 columns: skipped
		} else {
			k := rem / std
			for i := 0; i < k-1; i++ {
				sb.WriteString(line(100000+i, 40))
			}
			sb.WriteString(line(100000+k, 40+rem-k*std)) // the last one is stretched to fit
		}
	}
	return sb.String()
}

// Reply returns the RESP bulk reply carrying the text.
func (t *Topo) Reply(self *Node) []byte {
	return BulkReply([]byte(t.Text(self)))
}

// Install makes every node answer CLUSTER NODES with this topology.
func (t *Topo) Install(cl *Cluster) {
	for _, tn := range t.Nodes {
		if tn.Node != nil {
			tn.Node.IsReplica = !tn.Master
		}
	}
	cl.SetNodesReply(func(n *Node) []byte { return t.Reply(n) })
}

// EvenTopo builds masters over the first nm nodes with the slot space split
// evenly and r replicas per master from the following nodes.
func EvenTopo(cl *Cluster, nm, r int) *Topo {
	t := &Topo{}
	per := 16384 / nm
	for i := 0; i < nm; i++ {
		lo := i * per
		hi := lo + per - 1
		if i == nm-1 {
			hi = 16383
		}
		n := cl.Nodes[i]
		t.Nodes = append(t.Nodes, &TNode{Node: n, ID: n.ID, Addr: n.Addr, Master: true, Slots: [][2]int{{lo, hi}}, CPort: true})
	}
	k := nm
	for i := 0; i < nm; i++ {
		for j := 0; j < r; j++ {
			n := cl.Nodes[k]
			k++
			t.Nodes = append(t.Nodes, &TNode{Node: n, ID: n.ID, Addr: n.Addr, Master: false, MasterID: cl.Nodes[i].ID, CPort: true})
		}
	}
	return t
}

// Owner returns the master TNode claiming slot (nil if unclaimed) among
// nodes considered usable by the caller-supplied filter (nil = all).
func (t *Topo) Owner(slot int) *TNode {
	for _, tn := range t.Nodes {
		if !tn.Master {
			continue
		}
		for _, s := range tn.Slots {
			if slot >= s[0] && slot <= s[1] {
				return tn
			}
		}
	}
	return nil
}

// Replicas returns the replicas of master id.
func (t *Topo) Replicas(id string) []*TNode {
	var out []*TNode
	for _, tn := range t.Nodes {
		if !tn.Master && tn.MasterID == id {
			out = append(out, tn)
		}
	}
	return out
}

var _ = bytes.Equal

// RandomTopo builds nm masters (the first nm nodes) owning a random partition
// of the slot space into nranges ranges (single-slot ranges included) and r
// replicas per master. Every master owns at least one range.
func RandomTopo(cl *Cluster, nm, r, nranges int, rnd func(n int) int) *Topo {
	if nranges < nm {
		nranges = nm
	}
	cuts := map[int]bool{}
	for len(cuts) < nranges-1 {
		cuts[1+rnd(16383)] = true
	}
	// a few single-slot ranges: cut right after an existing cut
	var starts []int
	starts = append(starts, 0)
	for c := range cuts {
		starts = append(starts, c)
	}
	sortInts(starts)
	t := &Topo{}
	for i := 0; i < nm; i++ {
		n := cl.Nodes[i]
		t.Nodes = append(t.Nodes, &TNode{Node: n, ID: n.ID, Addr: n.Addr, Master: true, CPort: i%2 == 0})
	}
	for i, s := range starts {
		e := 16383
		if i+1 < len(starts) {
			e = starts[i+1] - 1
		}
		m := i % nm
		if i >= nm {
			m = rnd(nm)
		}
		t.Nodes[m].Slots = append(t.Nodes[m].Slots, [2]int{s, e})
	}
	k := nm
	for i := 0; i < nm; i++ {
		for j := 0; j < r; j++ {
			n := cl.Nodes[k]
			k++
			t.Nodes = append(t.Nodes, &TNode{Node: n, ID: n.ID, Addr: n.Addr, Master: false, MasterID: cl.Nodes[i].ID, CPort: true})
		}
	}
	return t
}

func sortInts(a []int) {
	for i := 1; i < len(a); i++ {
		for j := i; j > 0 && a[j] < a[j-1]; j-- {
			a[j], a[j-1] = a[j-1], a[j]
		}
	}
}
