package lib

// Frozen reference command table: a transcription of the documented contract
// (docs/command.md "Yes" rows + AUTH) with the arity rule classes and the
// role class of each command per Redis semantics. It never imports rcproxy.

import (
	"bufio"
	"os"
	"sort"
	"strings"
)

type Arity int

const (
	ArZero Arity = iota // no argument
	Ar1                 // exactly 1 argument (the key)
	Ar2                 // exactly 2
	Ar3                 // exactly 3
	Ar4                 // exactly 4
	ArInf               // >= 1
	ArEven              // >= 2 and even
	ArEval              // >= 3 (script numkeys key ...)
)

type Role int

const (
	RoleRead   Role = iota // may be served by master or replica
	RoleWrite              // must go to the master
	RoleScan               // cursor scan: master
	RoleScript             // EVAL/EVALSHA: master
	RoleLocal              // answered by the proxy itself
)

type CmdInfo struct {
	Name  string
	Arity Arity
	Role  Role
	Multi string // "", "mget", "mset", "del"
}

var CmdTable = map[string]CmdInfo{}

func add(role Role, ar Arity, names ...string) {
	for _, n := range names {
		CmdTable[n] = CmdInfo{Name: n, Arity: ar, Role: role}
	}
}

func init() {
	add(RoleLocal, ArZero, "ping", "quit")
	add(RoleLocal, Ar1, "auth")
	// reads
	add(RoleRead, Ar1, "exists", "ttl", "pttl", "type", "dump", "get", "strlen", "hgetall", "hkeys", "hlen",
		"smembers", "zcard", "llen", "scard", "hvals")
	add(RoleRead, Ar2, "getbit", "hexists", "hget", "lindex", "sismember", "zrank", "zrevrank", "zscore")
	add(RoleRead, Ar3, "getrange", "lrange", "zcount", "zlexcount")
	add(RoleRead, ArInf, "bitcount", "mget", "hmget", "srandmember", "sdiff", "sinter", "sunion", "zrange", "zrangebylex",
		"zrangebyscore", "zrevrange", "zrevrangebyscore")
	// scans
	add(RoleScan, ArInf, "hscan", "sscan", "zscan")
	// writes
	add(RoleWrite, Ar1, "pfcount", "spop", "rpop", "persist", "decr", "incr", "lpop")
	add(RoleWrite, Ar2, "rpoplpush", "rpushx", "expire", "expireat", "pexpire", "pexpireat", "append", "decrby", "getset",
		"incrby", "incrbyfloat", "setnx", "lpushx")
	add(RoleWrite, Ar3, "psetex", "restore", "setbit", "setex", "setrange", "hincrby", "hincrbyfloat", "hset", "hsetnx",
		"lrem", "lset", "ltrim", "smove", "zincrby", "zremrangebyrank", "zremrangebylex", "zremrangebyscore")
	add(RoleWrite, Ar4, "linsert")
	add(RoleWrite, ArInf, "set", "hmset", "lpush", "hdel", "pfmerge", "rpush", "pfadd", "sadd", "sdiffstore", "sinterstore",
		"srem", "sunionstore", "zadd", "zinterstore", "zrem", "zunionstore", "del", "sort")
	add(RoleWrite, ArEven, "mset")
	add(RoleScript, ArEval, "eval", "evalsha")
	for _, m := range []string{"mget", "mset", "del"} {
		ci := CmdTable[m]
		ci.Multi = m
		CmdTable[m] = ci
	}
}

// ArityOK tells whether n arguments (excluding the command name) satisfy ar.
func ArityOK(ar Arity, n int) bool {
	switch ar {
	case ArZero:
		return n == 0
	case Ar1:
		return n == 1
	case Ar2:
		return n == 2
	case Ar3:
		return n == 3
	case Ar4:
		return n == 4
	case ArInf:
		return n >= 1
	case ArEven:
		return n >= 2 && n%2 == 0
	case ArEval:
		return n >= 3
	}
	return false
}

// MinimalArgs returns a valid argument count for the arity class.
func MinimalArgs(ar Arity) int {
	switch ar {
	case ArZero:
		return 0
	case Ar1, ArInf:
		return 1
	case Ar2, ArEven:
		return 2
	case Ar3, ArEval:
		return 3
	case Ar4:
		return 4
	}
	return 1
}

// KeyIndex is the position (in the argument list without the command name) of
// the routing key.
func KeyIndex(ci CmdInfo) int {
	if ci.Role == RoleScript {
		return 2
	}
	return 0
}

// SingleKeyCommands returns the sorted names of forwarded commands that are
// not split (everything except mget/mset/del and the local ones).
func SingleKeyCommands() []string {
	var out []string
	for n, ci := range CmdTable {
		if ci.Role == RoleLocal || ci.Multi != "" {
			continue
		}
		out = append(out, n)
	}
	sort.Strings(out)
	return out
}

// DocCommands parses docs/command.md and returns the documented "Yes" and
// "No" command names (lower case; names in the docs such as "CLIENT KILL"
// are written without space there already).
func DocCommands(path string) (yes, no []string, err error) {
	f, err := os.Open(path)
	if err != nil {
		return nil, nil, err
	}
	defer f.Close()
	seenYes := map[string]bool{}
	seenNo := map[string]bool{}
	sc := bufio.NewScanner(f)
	for sc.Scan() {
		line := sc.Text()
		if !strings.HasPrefix(line, "|") {
			continue
		}
		cols := strings.Split(line, "|")
		if len(cols) < 4 {
			continue
		}
		name := strings.ToLower(strings.TrimSpace(cols[1]))
		sup := strings.TrimSpace(cols[2])
		if name == "" || name == "command" || strings.HasPrefix(name, ":") {
			continue
		}
		name = strings.ReplaceAll(name, " ", "")
		switch sup {
		case "Yes":
			seenYes[name] = true
		case "No":
			seenNo[name] = true
		}
	}
	for n := range seenYes {
		yes = append(yes, n)
	}
	for n := range seenNo {
		if !seenYes[n] {
			no = append(no, n)
		}
	}
	sort.Strings(yes)
	sort.Strings(no)
	return yes, no, sc.Err()
}
