package lib

// Run-time support shared by all checks: verdict bookkeeping, evidence file,
// known-findings matching, replay files, exit codes.

import (
	"crypto/sha1"
	"encoding/json"
	"fmt"
	"os"
	"path/filepath"
	"sort"
	"strconv"
	"sync"
	"time"
)

const VerifDir = "/verif"

type Violation struct {
	Class   string      `json:"class"`   // failure mechanism (narrow)
	Shape   string      `json:"shape"`   // canonical shape of the failing input / call site / history
	Detail  string      `json:"detail"`  // human readable
	Witness interface{} `json:"witness"` // exact inputs, scripts, observations
}

type Finding struct {
	Status   string `json:"status"` // "open" or "fixed"
	Property string `json:"property"`
	Class    string `json:"class,omitempty"`
	Shape    string `json:"shape,omitempty"`
	Commit   string `json:"commit,omitempty"`
	What     string `json:"what"`
}

type Check struct {
	ID          string
	Level       string
	Tier        string
	Seed        int64
	Start       time.Time
	Rule        string
	Assumptions []string

	mu        sync.Mutex
	evals     int64
	distinct  map[string]struct{}
	samples   []interface{}
	counters  map[string]int64
	viols     []Violation
	inconcl   []string
	extra     map[string]interface{}
	MinEvals  int64 // fewer evaluations than this => inconclusive
	distinctN int64 // distinct cases counted by a child process
}

func NewCheck(id, level string) *Check {
	tier := os.Getenv("VERIF_TIER")
	if tier != "thorough" {
		tier = "quick"
	}
	seed, _ := strconv.ParseInt(os.Getenv("VERIF_SEED"), 10, 64)
	return &Check{ID: id, Level: level, Tier: tier, Seed: seed, Start: time.Now(),
		distinct: map[string]struct{}{}, counters: map[string]int64{}, extra: map[string]interface{}{}}
}

func (c *Check) Thorough() bool { return c.Tier == "thorough" }

// Pick returns q in the quick tier and t in the thorough tier.
func (c *Check) Pick(q, t int) int {
	if c.Thorough() {
		return t
	}
	return q
}

func (c *Check) Eval(n int) {
	c.mu.Lock()
	c.evals += int64(n)
	c.mu.Unlock()
}

// Distinct registers the signature of a non-trivial case.
func (c *Check) Distinct(sig string) {
	c.mu.Lock()
	if len(c.distinct) < 2_000_000 {
		c.distinct[sig] = struct{}{}
	}
	c.mu.Unlock()
}

// DistinctN adds n distinct cases that a child process counted itself.
func (c *Check) DistinctN(n int64) {
	c.mu.Lock()
	c.distinctN += n
	c.mu.Unlock()
}

func (c *Check) Sample(s interface{}) {
	c.mu.Lock()
	if len(c.samples) < 6 {
		c.samples = append(c.samples, s)
	}
	c.mu.Unlock()
}

func (c *Check) Count(name string, n int64) {
	c.mu.Lock()
	c.counters[name] += n
	c.mu.Unlock()
}

func (c *Check) Counter(name string) int64 {
	c.mu.Lock()
	defer c.mu.Unlock()
	return c.counters[name]
}

func (c *Check) SetExtra(k string, v interface{}) {
	c.mu.Lock()
	c.extra[k] = v
	c.mu.Unlock()
}

func (c *Check) Violate(v Violation) {
	if os.Getenv("VERIF_DEBUG") != "" {
		fmt.Fprintf(os.Stderr, "[debug] violation %s/%s: %s\n", v.Class, v.Shape, trunc(v.Detail, 300))
	}
	c.mu.Lock()
	if len(c.viols) < 2000 {
		c.viols = append(c.viols, v)
	}
	c.mu.Unlock()
}

func (c *Check) NViol() int {
	c.mu.Lock()
	defer c.mu.Unlock()
	return len(c.viols)
}

func (c *Check) Inconclusive(format string, a ...interface{}) {
	c.mu.Lock()
	c.inconcl = append(c.inconcl, fmt.Sprintf(format, a...))
	c.mu.Unlock()
}

func loadFindings() []Finding {
	b, err := os.ReadFile(filepath.Join(VerifDir, "known_findings.json"))
	if err != nil {
		return nil
	}
	var f struct {
		Findings []Finding `json:"findings"`
	}
	if json.Unmarshal(b, &f) != nil {
		return nil
	}
	return f.Findings
}

// Finish prints the verdict lines, writes the evidence file and exits.
func (c *Check) Finish() {
	c.mu.Lock()
	defer c.mu.Unlock()
	findings := loadFindings()
	type key struct{ class, shape string }
	known := map[key]Finding{}
	for _, f := range findings {
		if f.Status == "open" && f.Property == c.ID {
			known[key{f.Class, f.Shape}] = f
		}
	}
	knownHit := map[key]int{}
	var fresh []Violation
	for _, v := range c.viols {
		k := key{v.Class, v.Shape}
		if _, ok := known[k]; ok {
			knownHit[k]++
			continue
		}
		fresh = append(fresh, v)
	}
	var keys []key
	for k := range knownHit {
		keys = append(keys, k)
	}
	sort.Slice(keys, func(i, j int) bool { return keys[i].class+keys[i].shape < keys[j].class+keys[j].shape })
	for _, k := range keys {
		fmt.Printf("KNOWN-FINDING: property=%s %s [class=%s shape=%s] (seen %d times in this run)\n", c.ID, known[k].What, k.class, k.shape, knownHit[k])
	}
	// group fresh violations by class+shape, one replay file per group
	os.MkdirAll(filepath.Join(VerifDir, "replays"), 0o755)
	groups := map[key][]Violation{}
	var gorder []key
	for _, v := range fresh {
		k := key{v.Class, v.Shape}
		if _, ok := groups[k]; !ok {
			gorder = append(gorder, k)
		}
		groups[k] = append(groups[k], v)
	}
	for _, k := range gorder {
		vs := groups[k]
		h := sha1.Sum([]byte(k.class + "|" + k.shape))
		path := filepath.Join(VerifDir, "replays", fmt.Sprintf("%s-%x.json", c.ID, h[:5]))
		rep := map[string]interface{}{"property": c.ID, "seed": c.Seed, "tier": c.Tier, "class": k.class, "shape": k.shape,
			"count": len(vs), "first": vs[0]}
		if len(vs) > 1 {
			rep["more"] = vs[1:minInt(len(vs), 5)]
		}
		b, _ := json.MarshalIndent(rep, "", " ")
		os.WriteFile(path, b, 0o644)
		fmt.Printf("VIOLATION property=%s replay=%s class=%s shape=%s detail=%s\n", c.ID, path, k.class, k.shape, trunc(vs[0].Detail, 300))
	}
	minEv := c.MinEvals
	if minEv < 1 {
		minEv = 1
	}
	ndist := int64(len(c.distinct)) + c.distinctN
	if c.evals < minEv || ndist < 2 {
		c.inconcl = append(c.inconcl, fmt.Sprintf("too few cases observed: evaluations=%d distinct=%d", c.evals, ndist))
	}
	for _, s := range c.inconcl {
		fmt.Printf("INCONCLUSIVE property=%s %s\n", c.ID, s)
	}
	// evidence
	cov := map[string]interface{}{
		"evaluations":         c.evals,
		"distinct_nontrivial": ndist,
		"rule":                c.Rule,
		"samples":             c.samples,
		"counters":            c.counters,
		"known_findings_seen": len(knownHit),
	}
	for k, v := range c.extra {
		cov[k] = v
	}
	if len(c.samples) == 0 {
		cov["samples"] = []interface{}{"(no case was run)"}
	}
	ev := map[string]interface{}{
		"property_id": c.ID,
		"tier":        c.Tier,
		"seed":        c.Seed,
		"level":       c.Level,
		"coverage":    cov,
		"assumptions": c.Assumptions,
		"wall_s":      time.Since(c.Start).Seconds(),
		"violations":  len(fresh),
		"verdict":     verdict(len(fresh), len(c.inconcl)),
	}
	if len(c.inconcl) > 0 {
		ev["inconclusive"] = c.inconcl
	}
	os.MkdirAll(filepath.Join(VerifDir, "evidence"), 0o755)
	b, _ := json.MarshalIndent(ev, "", " ")
	os.WriteFile(filepath.Join(VerifDir, "evidence", c.ID+".json"), b, 0o644)
	fmt.Printf("%s tier=%s seed=%d evaluations=%d distinct=%d violations=%d known=%d wall=%.1fs verdict=%s\n", c.ID, c.Tier, c.Seed, c.evals,
		ndist, len(fresh), len(knownHit), time.Since(c.Start).Seconds(), verdict(len(fresh), len(c.inconcl)))
	switch {
	case len(fresh) > 0:
		os.Exit(1)
	case len(c.inconcl) > 0:
		os.Exit(2)
	}
	os.Exit(0)
}

func verdict(nv, ni int) string {
	switch {
	case nv > 0:
		return "violated"
	case ni > 0:
		return "inconclusive"
	}
	return "held-on-observed"
}

func trunc(s string, n int) string {
	if len(s) > n {
		return s[:n] + "..."
	}
	return s
}

// Q renders bytes for witnesses (quoted, truncated).
func Q(b []byte) string {
	if len(b) > 400 {
		return strconv.Quote(string(b[:200])) + fmt.Sprintf("...(%d bytes)...", len(b)) + strconv.Quote(string(b[len(b)-100:]))
	}
	return strconv.Quote(string(b))
}
