package lib

// Reference key-slot function, written from the Redis Cluster specification.
// Deliberately bit-by-bit (no table) and independent of rcproxy code.

import (
	"bytes"
	"fmt"
	"sync"
)

// CRC16 is CRC16/XMODEM: poly 0x1021, init 0, no reflection, no xorout.
func CRC16(b []byte) uint16 {
	var crc uint16
	for _, c := range b {
		crc ^= uint16(c) << 8
		for i := 0; i < 8; i++ {
			if crc&0x8000 != 0 {
				crc = crc<<1 ^ 0x1021
			} else {
				crc <<= 1
			}
		}
	}
	return crc
}

// HashTagPart returns the part of key that is hashed: the substring between
// the first '{' and the first '}' after it when non-empty, else the whole key.
func HashTagPart(key []byte) []byte {
	s := bytes.IndexByte(key, '{')
	if s < 0 {
		return key
	}
	e := bytes.IndexByte(key[s+1:], '}')
	if e < 0 {
		return key
	}
	if e == 0 {
		return key
	}
	return key[s+1 : s+1+e]
}

// KeySlot is the Redis Cluster key slot.
func KeySlot(key []byte) int {
	return int(CRC16(HashTagPart(key))) % 16384
}

// SelfCheckSlot checks the reference against published vectors.
func SelfCheckSlot() error {
	if CRC16([]byte("123456789")) != 0x31C3 {
		return fmt.Errorf("crc16 vector 123456789 failed: %x", CRC16([]byte("123456789")))
	}
	vec := map[string]int{
		"":                     0,
		"foo":                  12182,
		"bar":                  5061,
		"{user1000}.following": 3443,
		"{user1000}.followers": 3443,
		"foo{bar}{zap}":        5061,
	}
	for k, want := range vec {
		if got := KeySlot([]byte(k)); got != want {
			return fmt.Errorf("slot vector %q: got %d want %d", k, got, want)
		}
	}
	// structural vectors from the specification's examples
	if KeySlot([]byte("foo{}{bar}")) != int(CRC16([]byte("foo{}{bar}")))%16384 {
		return fmt.Errorf("foo{}{bar} must hash the whole key")
	}
	if KeySlot([]byte("foo{{bar}}zap")) != int(CRC16([]byte("{bar")))%16384 {
		return fmt.Errorf("foo{{bar}}zap must hash {bar")
	}
	if KeySlot([]byte("}{bar}")) != 5061 {
		return fmt.Errorf("}{bar} must hash bar")
	}
	return nil
}

var (
	tagOnce sync.Once
	tagTab  [16384]string
)

// SlotTag returns a short string without braces whose CRC16 maps to slot, so
// that "{"+SlotTag(slot)+"}anything" lands in slot.
func SlotTag(slot int) string {
	tagOnce.Do(func() {
		found := 0
		for i := 0; found < 16384; i++ {
			s := fmt.Sprintf("%x", i)
			sl := int(CRC16([]byte(s))) % 16384
			if tagTab[sl] == "" {
				tagTab[sl] = s
				found++
			}
		}
	})
	return tagTab[slot]
}
