#!/usr/bin/env python3
"""Confirm a seeded change in a scratch worktree of /repo (outside /repo and /verif):
  1. the patch applies to HEAD, `go build ./...` and `go build -tags verif .` succeed,
  2. the repository's baseline tests still pass with the patch,
  3. the demonstration passes WITHOUT the patch and fails WITH it.
usage: confirm_mutant.py <patch.diff> <demo_dir> [--run-txt <file>]
Prints a JSON object with the verdicts. The demonstration commands (mkdir / cp / go test) are
taken from the demo's run.txt with the original worktree path rewritten to the scratch one."""
import json, os, re, shutil, subprocess, sys, tempfile

ENV = dict(os.environ, GOFLAGS="-mod=mod", GOPROXY="off", GOSUMDB="off", GOTOOLCHAIN="local")

def sh(cmd, cwd, timeout=900):
    p = subprocess.run(["bash", "-o", "pipefail", "-c", cmd], cwd=cwd, env=ENV, stdout=subprocess.PIPE, stderr=subprocess.STDOUT, timeout=timeout)
    return p.returncode, p.stdout.decode(errors="replace")

def baseline(cwd):
    rc, out = sh("go test -json -vet=off -count=1 -timeout 20m ./... 2>/dev/null", cwd)
    passed = set()
    for line in out.splitlines():
        try:
            e = json.loads(line)
        except Exception:
            continue
        if e.get("Test") and e.get("Action") == "pass":
            passed.add(e["Package"] + "::" + e["Test"])
    base = set(json.load(open("/root/.vp/BASELINE.json"))["stable_pass"])
    return sorted(base - passed)

def main():
    patch, demo = sys.argv[1], sys.argv[2].rstrip("/")
    runtxt = os.path.join(demo, "run.txt")
    txt = open(runtxt).read()
    m = re.search(r"/tmp/wt\d?_C\d+", txt)
    orig = m.group(0) if m else "/tmp/wt_NONE"
    wt = tempfile.mkdtemp(prefix="cm_", dir="/tmp")
    os.rmdir(wt)
    res = {"patch": patch, "demo": demo}
    try:
        rc, out = sh(f"git -C /repo worktree add -q --detach {wt} HEAD", "/")
        assert rc == 0, out
        # demonstration commands
        setup, tests = [], []
        for raw in txt.splitlines():
            line = raw.strip()
            if line.startswith("$ "):
                line = line[2:]
            line = line.replace(orig, wt)
            parts = [p.strip() for p in line.split("&&")]
            for p in parts:
                if p.startswith("mkdir ") or (p.startswith("cp ") and "seed_out" in p):
                    if p not in setup:
                        setup.append(p)
                elif re.match(r"^((\w+=('[^']*'|\S+))\s+)*go (test|run) ", p) and "core/..." not in p and "./" in p:
                    if p not in tests:
                        tests.append(p)
        res["setup"] = setup
        res["tests"] = tests[:3]
        if not tests:
            res["error"] = "no demo command found in run.txt"
            print(json.dumps(res, indent=1)); return
        for s in setup:
            rc, out = sh(s, wt)
            if rc != 0:
                res["error"] = f"setup failed: {s}: {out[-300:]}"
                print(json.dumps(res, indent=1)); return
        test = " && ".join(tests[:1])
        rc0, out0 = sh(test, wt)
        res["demo_without_patch"] = "pass" if rc0 == 0 else "FAIL"
        res["demo_without_patch_tail"] = out0[-400:]
        rc, out = sh(f"git apply {patch} || git apply -3 {patch}", wt)
        res["applies"] = rc == 0
        if rc != 0:
            res["error"] = "patch does not apply: " + out[-300:]
            print(json.dumps(res, indent=1)); return
        rc, out = sh("go build ./... && go build -tags verif -o /dev/null .", wt)
        res["builds"] = rc == 0
        rc1, out1 = sh(test, wt)
        res["demo_with_patch"] = "fail" if rc1 != 0 else "PASS"
        res["demo_with_patch_tail"] = out1[-600:]
        # baseline with the patch (demo files removed so they do not interfere)
        sh("git clean -fdq", wt)
        missing = baseline(wt)
        res["baseline_missing_with_patch"] = missing
        res["confirmed"] = bool(res["builds"] and rc0 == 0 and rc1 != 0 and not missing)
    finally:
        sh(f"git -C /repo worktree remove --force {wt}", "/")
        shutil.rmtree(wt, ignore_errors=True)
        sh("git -C /repo worktree prune", "/")
    print(json.dumps(res, indent=1))

if __name__ == "__main__":
    main()
