#!/usr/bin/env python3
"""Regenerates section 9 of DESIGN.md from seeded/*/meta.json and seeded/RESULTS.json."""
import json, glob, os, re
res = json.load(open('/verif/seeded/RESULTS.json')) if os.path.exists('/verif/seeded/RESULTS.json') else {}
lines = []
lines.append(str(len(glob.glob("/verif/seeded/C*-*"))) + " changes (five rounds: names without suffix digit, -2x, -3x, -4x, -5x) were produced by fresh sub-agents that were given only the text of one property and a scratch")
lines.append("worktree of `/repo` (nothing from `/verif`). Each was kept only after `tools/confirm_mutant.py` confirmed, in a")
lines.append("scratch worktree under `/tmp`, that it applies to `/repo` HEAD, that `go build ./...` and `go build -tags verif .`")
lines.append("succeed, that the 35 baseline tests still pass with it, and that its demonstration passes without the change and")
lines.append("fails with it. They live in `seeded/<id>/` (`patch.diff`, `demo/`, `meta.json`). `tools/mutants_all.py` applies each")
lines.append("to `/repo`, runs the quick check of its property and restores `/repo`; `seeded/RESULTS.json` is its output.")
lines.append("")
lines.append("| change | what it needs to manifest | caught by (quick tier) | violation classes |")
lines.append("|---|---|---|---|")
missed = []
for d in sorted(glob.glob('/verif/seeded/C*-*')):
    name = os.path.basename(d)
    m = json.load(open(d + '/meta.json'))
    r = res.get(name, {})
    caught = [k for k, v in r.items() if isinstance(v, dict) and v.get('detected')]
    cls = []
    for k in caught:
        cls += [c.split(' [')[0] for c in r[k].get('violation_classes', [])]
    cls = sorted(set(cls))[:4]
    needs = (m.get('needs') or m.get('summary') or '').replace('|', '/').replace('\n', ' ')
    if len(needs) > 230:
        needs = needs[:227] + '...'
    if not caught:
        missed.append(name)
    lines.append(f"| {name} | {needs} | {', '.join(caught) if caught else '**missed**'} | {', '.join(cls)} |")
lines.append("")
lines.append(f"Caught: {len(glob.glob('/verif/seeded/C*-*')) - len(missed)} of {len(glob.glob('/verif/seeded/C*-*'))}." + (f" Missed: {', '.join(missed)}." if missed else ""))
lines.append("")
lines.append("Checks that were strengthened because a first version missed a seeded change (the change that triggered it in brackets):")
lines.append("C01 error fragments inside pipelines [C01-a] and > 1024 completed replies behind a slow head [C01-b, C09-b]; C02 many small")
lines.append("replies to a non-reading client [C02-b] and a violation circuit breaker [C02-a]; C04 brace-hostile keys [C04-b]; C08 connections")
lines.append("closed in the middle of a request before the observed one, in the overlay driver and on the wire [C08-b]; C10 node read pauses")
lines.append("and slow reads, corrupt request streams at the node count as interleaving [C10-b]; C11 error texts sharing a prefix with the")
lines.append("ones the proxy acts on [C11-b]; C12 numbers around 2^63 / 2^64 [C12-a]; C13 several redirects in flight at once [C13-b]; C14")
lines.append("count-preserving boundary shifts and a deck that deals every transition kind [C14-a, C14-b]; C15 the removed-from-topology")
lines.append("probe [C15-a]; C17 split requests around the limit [C17-a]; C20 strictly periodic read/write patterns [C20-a] and CLUSTER NODES")
lines.append("lines in arbitrary order [C20-b]. The reverts of the 15 `fix:` commits are the other half of the sensitivity evidence:")
lines.append("every one of those checks fired on the pinned tree before its fix (section 5).")
p = '/verif/DESIGN.md'
s = open(p).read()
a = s.index('<!-- SEEDED-TABLE-BEGIN -->') + len('<!-- SEEDED-TABLE-BEGIN -->')
b = s.index('<!-- SEEDED-TABLE-END -->')
s = s[:a] + "\n" + "\n".join(lines) + "\n" + s[b:]
open(p, 'w').write(s)
print("missed:", missed)
