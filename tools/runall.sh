#!/bin/bash
# usage: tools/runall.sh [tier] [seed]  -- runs every check once, prints one line each
tier=${1:-quick}; seed=${2:-0}
cd /verif
for i in $(seq -w 1 20); do
  id=C$i
  s=$(date +%s)
  out=$(VERIF_TIER=$tier VERIF_SEED=$seed timeout 3600 ./bin/vcheck run $id 2>&1); rc=$?
  e=$(date +%s)
  echo "$id rc=$rc $((e-s))s $(echo "$out" | tail -1 | cut -c1-160)"
  echo "$out" | grep -E '^(VIOLATION|INCONCLUSIVE|KNOWN)' | head -5 | cut -c1-300
done
