#!/bin/bash
# usage: tools/runall_bg.sh <tier> <seed> <binary> -- sequential run of all checks, one line each into the log
tier=$1; seed=$2; bin=$3
cd /verif
for i in $(seq -w 1 20); do
  id=C$i
  s=$(date +%s)
  out=$(VERIF_TIER=$tier VERIF_SEED=$seed timeout 5400 $bin run $id 2>&1); rc=$?
  e=$(date +%s)
  echo "$id rc=$rc $((e-s))s $(echo "$out" | tail -1 | cut -c1-160)"
  echo "$out" | grep -E '^(VIOLATION|INCONCLUSIVE|KNOWN)' | head -8 | cut -c1-400
done
