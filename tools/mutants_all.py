#!/usr/bin/env python3
"""Runs every seeded change under /verif/seeded against the quick check of its property
(and extra checks given as 'also' in meta.json), restoring /repo after each one.
Writes /verif/seeded/RESULTS.json. usage: tools/mutants_all.py [name-regex]"""
import json, os, subprocess, sys, glob, re, time
pref = sys.argv[1] if len(sys.argv) > 1 else ""
# optional: --repo <scratch worktree of /repo> --shard i/n --out <file>  (parallel runs; the
# checks are pointed at the scratch tree with VCHECK_REPO, /repo itself is not touched)
repo, shard, nshard = "/repo", 0, 1
rp = "/verif/seeded/RESULTS.json"
for i, a in enumerate(sys.argv):
    if a == "--repo": repo = sys.argv[i + 1]
    if a == "--shard": shard, nshard = [int(x) for x in sys.argv[i + 1].split("/")]
    if a == "--out": rp = sys.argv[i + 1]
envp = "" if repo == "/repo" else f"VCHECK_REPO={repo} "
res = {}
if os.path.exists(rp):
    res = json.load(open(rp))
todo = [d for d in sorted(glob.glob("/verif/seeded/C*-*")) if re.search(pref, os.path.basename(d))]
for idx, d in enumerate(todo):
    name = os.path.basename(d)
    if idx % nshard != shard:
        continue
    meta = json.load(open(d + "/meta.json"))
    ids = [meta["property"]] + meta.get("also", [])
    if subprocess.run(f"git -C {repo} diff --quiet", shell=True).returncode != 0:
        print("repo dirty, abort"); sys.exit(2)
    rc = subprocess.run(f"git -C {repo} apply {d}/patch.diff || (git -C {repo} apply -3 {d}/patch.diff && git -C {repo} reset -q)", shell=True).returncode
    if rc != 0:
        subprocess.run(f"git -C {repo} reset -q --hard HEAD", shell=True)
        res[name] = {"error": "patch does not apply"}; print(name, "PATCH DOES NOT APPLY", flush=True); continue
    out = {}
    try:
        for cid in ids:
            t0 = time.time()
            p = subprocess.run(f"cd /verif && {envp}VERIF_TIER=quick timeout 900 ./bin/vcheck run {cid}", shell=True, stdout=subprocess.PIPE, stderr=subprocess.STDOUT)
            txt = p.stdout.decode(errors="replace")
            classes = sorted(set(re.findall(r"^VIOLATION property=\S+ replay=\S+ class=(\S+) shape=(\S+)", txt, re.M)))
            out[cid] = {"exit": p.returncode, "detected": p.returncode == 1, "seconds": round(time.time() - t0, 1),
                        "violation_classes": [f"{c} [{s}]" for c, s in classes][:8]}
            print(name, cid, "exit", p.returncode, [c for c, _ in classes][:3], flush=True)
    finally:
        subprocess.run(f"git -C {repo} checkout -- . && git -C {repo} status --short", shell=True)
    res[name] = out
    json.dump(res, open(rp, "w"), indent=1)
