#!/usr/bin/env python3
"""Confirms (tools/confirm_mutant.py) and stores the deliverables of a round of seeding agents.
usage: ingest_seeds.py <out_root e.g. /tmp/seed_out2> <suffix e.g. 2> [ids...]
Stores confirmed ones as /verif/seeded/<id>-<suffix><variant>/."""
import json, os, shutil, subprocess, sys, glob
from concurrent.futures import ThreadPoolExecutor
root, suffix = sys.argv[1], sys.argv[2]
only = set(sys.argv[3:])
props = {json.loads(l)['id']: json.loads(l) for l in open('/verif/properties.jsonl')}
jobs = []
for d in sorted(glob.glob(root + '/C*/')):
    pid = os.path.basename(d.rstrip('/'))
    if only and pid not in only:
        continue
    for v in 'abc':
        if os.path.exists(f'{d}{v}.diff') and os.path.exists(f'{d}{v}_demo/run.txt'):
            name = f'{pid}-{suffix}{v}'
            if os.path.exists(f'/verif/seeded/{name}/meta.json'):
                continue
            jobs.append((pid, v, name, d))
os.makedirs('/tmp/confirm', exist_ok=True)
def run(job):
    pid, v, name, d = job
    out = subprocess.run(['python3', '/verif/tools/confirm_mutant.py', f'{d}{v}.diff', f'{d}{v}_demo'], stdout=subprocess.PIPE, stderr=subprocess.STDOUT).stdout.decode(errors='replace')
    open(f'/tmp/confirm/{name}.json', 'w').write(out)
    try:
        return job, json.loads(out)
    except Exception:
        return job, {'error': 'unparsable: ' + out[-300:]}
with ThreadPoolExecutor(3) as ex:
    for (pid, v, name, d), cj in ex.map(run, jobs):
        if not cj.get('confirmed'):
            print('NOT CONFIRMED', name, cj.get('demo_without_patch'), cj.get('demo_with_patch'), cj.get('builds'), cj.get('baseline_missing_with_patch'), (cj.get('error') or '')[:200])
            continue
        out = f'/verif/seeded/{name}'
        shutil.rmtree(out, ignore_errors=True)
        os.makedirs(out)
        shutil.copy(f'{d}{v}.diff', f'{out}/patch.diff')
        shutil.copytree(f'{d}{v}_demo', f'{out}/demo')
        aj = {}
        if os.path.exists(f'{d}{v}.json'):
            try:
                aj = json.load(open(f'{d}{v}.json'))
            except Exception:
                aj = {}
        meta = {"id": name, "property": pid, "property_title": props[pid]['title'],
                "origin": "fresh sub-agent (round " + suffix + ") given only the property text and a scratch worktree of /repo (nothing from /verif)",
                "summary": aj.get('summary', ''), "needs": aj.get('needs', ''), "files": aj.get('files', []),
                "confirmed": {"by": "tools/confirm_mutant.py in a scratch git worktree under /tmp (removed afterwards)",
                              "patch_applies_to_repo_head": True, "go_build_and_go_build_tags_verif": cj.get('builds'),
                              "baseline_tests_missing_with_patch": cj.get('baseline_missing_with_patch'),
                              "demo_setup": cj.get('setup'), "demo_command": cj.get('tests'),
                              "demo_without_patch": cj.get('demo_without_patch'), "demo_with_patch": cj.get('demo_with_patch'),
                              "demo_with_patch_output_tail": cj.get('demo_with_patch_tail', '')[-500:]},
                "notes": ""}
        json.dump(meta, open(f'{out}/meta.json', 'w'), indent=1)
        print('stored', name)
