#!/bin/bash
# usage: tools/mutant.sh <patch.diff> <check id>...   (applies to /repo, runs quick checks, reverts)
set -u
patch=$1; shift
cd /repo || exit 2
if ! git diff --quiet; then echo "repo dirty"; exit 2; fi
if ! git apply --check "$patch" 2>/dev/null; then
  if ! git apply -3 "$patch" 2>/dev/null; then echo "PATCH DOES NOT APPLY: $patch"; git reset -q --hard HEAD; exit 3; fi
  git reset -q
else
  git apply "$patch"
fi
cd /verif
for id in "$@"; do
  out=$(VERIF_TIER=quick timeout 600 ./bin/vcheck run "$id" 2>&1)
  rc=$?
  echo "== $id rc=$rc: $(echo "$out" | grep -c '^VIOLATION') violation lines; $(echo "$out" | tail -1 | cut -c1-200)"
  echo "$out" | grep '^VIOLATION' | head -3 | cut -c1-400
done
git -C /repo checkout -- .
git -C /repo status --short | head -3
