#!/bin/bash
# runs the repository suite with hooks off and compares with BASELINE.json
cd /repo && GOFLAGS=-mod=mod GOPROXY=off GOSUMDB=off GOTOOLCHAIN=local go test -json -vet=off -count=1 -timeout 25m ./... 2>/dev/null | python3 -c "
import sys,json
p=set();f=set()
for l in sys.stdin:
    try: e=json.loads(l)
    except: continue
    if e.get('Test') and e.get('Action') in('pass','fail'):
        (p if e['Action']=='pass' else f).add(e['Package']+'::'+e['Test'])
base=set(json.load(open('/root/.vp/BASELINE.json'))['stable_pass'])
print('baseline: pass',len(p),'fail',len(f),'missing from baseline:',sorted(base-p))
sys.exit(1 if base-p else 0)
"
